"""C09 — shutter position estimate matches motor run time regardless of timer jitter."""
import framework as F
from props.c03 import set_value


class C09(F.Spec):
    pid = "C09"
    lean_module = "SuplaVerif.Props.C09"
    namespace = "SuplaVerif.C09"
    driver = "drv_dev"
    variant = "cfg"
    model_args = ["rspos"]
    rule = ("(a) probes of supla_esp_gpio_rs_move_position: full times 0.5 s..10 min, the three tilt modes and none, tilting times "
            "below the full time, start positions/tilts over the whole range and at the end stops, carried time, up to 50 callback "
            "intervals of 1..250 ms (also 0 and multi-second gaps) per probe: position, tilt and carried time after every callback "
            "are compared with the integer Lean model; (b) whole-device runs of a calibrated shutter/blind: command up/down, the "
            "10 ms accounting timer replaced by callbacks at random 1..250 ms intervals that partition the run, stop: the stored "
            "position/tilt are compared with an independent reference (start + run time / travel time, tilt first per mode, clamped) "
            "within 1 % + the travel of 30 ms; range, direction and the reported value (-1, 0..100) are checked at every callback. "
            "Non-trivial: the position or tilt changed; distinct = (mode, direction, end stop reached, bucketed times).")
    assumptions = ["doubles: truncation of the C double expressions equals the integer floor for these magnitudes (validated by (a))",
                   "(b): the run is partitioned by the callbacks (one at switch-on, one at switch-off); a stop between two callbacks "
                   "loses that last interval (up to 10 ms with the real 10 ms timer) - switching latency in the property's wording",
                   "tilt type 0 with a non-zero tilting time (unreachable through the channel configuration) is not generated"]

    def cases(self, rng, tier):
        dur = (600 << 16) | 600
        yield F.Case("witness-mode2-tilt", ["boot 12345", "board rs1 0", "init", "calllog 1", "rstimes 0 60000 60000 2000 2", "rspos 0 10100 10100",
                                            "rsmanual 0", "adv 1500", "rstick 0 10000", "rstick 0 0", "msg 110 " + set_value(7, 0, dur, [2]).hex()]
                     + ["rstick 0 10000"] * 100 + ["msg 110 " + set_value(8, 0, dur, [0]).hex(), "rstick 0 10000", "rstick 0 10000"],
                     {"kind": "run", "tt": 2, "up": 1, "opening": 60000, "closing": 60000, "tms": 2000, "p0": 10100, "t0": 10100,
                      "noshrink": True, "tags": ["kind:witness"]})
        dur = (5 << 16) | 598
        yield F.Case("witness-tilt-phase", ["boot 12345", "board rs1 0", "init", "calllog 1", "rstimes 0 500 59800 125 1", "rspos 0 10100 10100",
                                            "rsmanual 0", "adv 1500", "rstick 0 10000", "rstick 0 0", "msg 110 " + set_value(7, 0, dur, [2]).hex(),
                                            "rstick 0 10000", "rstick 0 10000", "rstick 0 10000", "rstick 0 5000", "rstick 0 5000", "rstick 0 1000",
                                            "rstick 0 20000", "rstick 0 189000", "msg 110 " + set_value(8, 0, dur, [0]).hex(), "rstick 0 10000",
                                            "rstick 0 10000"],
                     {"kind": "run", "tt": 1, "up": 1, "opening": 500, "closing": 59800, "tms": 125, "p0": 10100, "t0": 10100,
                      "noshrink": True, "tags": ["kind:witness"]})
        for i in range(150 if tier == "quick" else 2500):
            yield self.probe(rng, i)
        for i in range(60 if tier == "quick" else 600):
            yield self.scenario(rng, i)
        for i in range(12 if tier == "quick" else 60):
            yield self.legs(rng, i)
        # blinds whose tilting runs in short equal callbacks (1, 2, 3, 7 ms) with tilting times whose unit (time / 10^4) does not
        # divide the interval: a remainder that is dropped per callback adds up over the tilting
        for i in range(12 if tier == "quick" else 100):
            tt = [1, 3, 1, 1][i % 4]     # (mode 2 shares one carried time between tilt and position: the recorded finding)
            tms = [3000, 1500, 7000, 2300][i // 4 % 4]
            sdt = [1000, 2000, 3000, 7000][(i // 2) % 4]
            up = i % 2
            full = rng.choice([20000, 30000])
            p0 = 10100 if (tt == 3 or up) else rng.choice([100, 5000])
            if tt == 3 and not up:
                continue                                     # (mode 3 tilts only at the closed end: upwards from there)
            t0 = 10100 if up else 100
            run = int(tms * 0.9) * 1000
            dur = ((full // 100) << 16) | (full // 100)
            ops = ["boot 12345", "board rs1 0", "motor 1 0 1 1", "init", "calllog 1", "rstimes 0 %d %d %d %d" % (full, full, tms, tt),
                   "rspos 0 %d %d" % (p0, t0), "rsmanual 0", "adv 1500", "rstick 0 10000", "rstick 0 0",
                   "msg 110 " + set_value(7, 0, dur, [2 if up else 1]).hex()]
            ops += ["rstick 0 %d" % sdt] * (run // sdt)
            ops += ["msg 110 " + set_value(8, 0, dur, [0]).hex(), "rstick 0 10000", "rstick 0 10000"]
            yield F.Case("tiltsmall%d" % i, ops, {"kind": "run", "tt": tt, "up": up, "opening": full, "closing": full, "tms": tms, "p0": p0,
                                                  "t0": t0, "noshrink": True, "tags": ["kind:run", "tilt:%d" % tt, "small-intervals"]})

    def legs(self, rng, i):
        """a plain shutter driven through several runs with direct reversals (no stop between them), the first of them into an
        end stop and on for a while beyond it: what one direction left unconsumed must not be added to a later run"""
        full = rng.choice([10000, 20000, 15000])
        dur = ((full // 100) << 16) | (full // 100)
        first_up = i % 2
        p0 = 1100 if first_up else 9100            # 10 % away from the end stop the first run goes to
        over = rng.choice([300, 500, 800, 900]) * full // 10000
        tick = 100000 if i % 3 else 50000
        ops = ["boot 12345", "board rs1 0", "motor 1 0 1 1", "init", "calllog 1", "rstimes 0 %d %d 0 0" % (full, full),
               "rspos 0 %d 0" % p0, "rsmanual 0", "adv 1500", "rstick 0 10000", "rstick 0 0"]
        legs = [(first_up, full // 10 + over), (1 - first_up, full // 2), (first_up, rng.choice([full // 10, full // 5]))]
        if i % 4 == 3:
            legs.append((1 - first_up, full // 10))
        for up, ms in legs:
            ops.append("msg 110 " + set_value(7, 0, dur, [2 if up else 1]).hex())
            ops += ["rstick 0 %d" % tick] * (ms * 1000 // tick)
        ops += ["msg 110 " + set_value(8, 0, dur, [0]).hex(), "rstick 0 10000", "rstick 0 10000"]
        return F.Case("legs%d" % i, ops, {"kind": "legs", "tt": 0, "up": first_up, "opening": full, "closing": full, "tms": 0, "p0": p0,
                                          "t0": 0, "noshrink": True, "tags": ["kind:legs", "reversals:%d" % (len(legs) - 1)]})

    def probe(self, rng, i):
        tt = rng.choice([0, 0, 1, 2, 3])
        full = rng.choice([500, 1000, 1234, 5000, 12345, 20000, 60000, 600000, rng.randint(500, 600000)])
        tms = 0 if tt == 0 else rng.choice([200, 1500, 3000, rng.randint(100, 5000)])
        if tt in (1, 3) and tms >= full:
            tms = full // 2
        up = rng.choice([0, 1])
        pos = rng.choice([100, 10100, 5000, 101, 10099, rng.randint(100, 10100)])
        tilt = 0 if tt == 0 else rng.choice([0, 100, 10100, 5000, rng.randint(100, 10100)])
        tm = rng.choice([0, 0, 0, rng.randint(0, 5000)])
        n = rng.randint(1, 50)
        dts = [rng.choice([1000, 10000, 10000, 10000, 9000, 11000, 250000, rng.randint(1000, 250000), 0, 5000000 if rng.random() < .05 else 10000])
               for _ in range(n)]
        op = "mvpos 0 %d %d %d %d %d %d %d %s" % (full, up, pos, tilt, tt, tms, tm, " ".join(map(str, dts)))
        return F.Case("probe%d" % i, ["board rs1 0", "init", op], {"kind": "probe", "tt": tt, "up": up, "full": full,
                                                                   "tags": ["kind:probe", "tilt:%d" % tt]})

    def scenario(self, rng, i):
        tt = rng.choice([0, 0, 0, 1, 2, 3])
        # (the server repeats the configured times in every command, in units of 100 ms)
        opening = rng.choice([500, 1000, 5000, 12300, 20000, 60000, 600000, 100 * rng.randint(5, 600)])
        closing = rng.choice([opening, 100 * rng.randint(5, 600)])
        tms = 0 if tt == 0 else rng.choice([300, 1500, rng.randint(100, 3000)])
        if tt and tms * 2 >= min(opening, closing):
            tms = min(opening, closing) // 4
        p0 = rng.choice([100, 10100, 5000, rng.randint(100, 10100)])
        t0 = 0 if tt == 0 else rng.choice([100, 10100, rng.randint(100, 10100)])
        if tt == 3 and p0 < 10100:
            t0 = 100
        up = rng.choice([0, 1])
        full = opening if up else closing
        run = int(full * rng.choice([0.05, 0.3, 0.5, 0.9, 1.0, 1.2])) * 1000    # µs
        run = max(1000, min(run, 590 * 1000000))
        dur = ((opening // 100) << 16) | (closing // 100)
        # what the motor sensor reports must not matter for a shutter with configured times: always moving, never moving,
        # moving after a start-up time
        sensor = rng.choice(["motor 1 0 1 1", "motor 1 0 1 1", "motor 2 0 1 1", "motor 0 %d 3600000 3600000" % rng.choice([100, 500, 1500, 2500])])
        ops = ["boot %d" % rng.choice([12345, 4294967295 - 3000000, rng.getrandbits(32) | 1]), "board rs1 0", sensor, "init", "calllog 1", "rstimes 0 %d %d %d %d" % (opening, closing, tms, tt), "rspos 0 %d %d" % (p0, t0),
               "rsmanual 0", "adv 1500", "rstick 0 10000", "rstick 0 0",
               "msg 110 " + set_value(7, 0, dur, [2 if up else 1]).hex()]
        costly = rng.random() < .3
        if costly:
            # code takes time to run: the counter moves on between two readings inside one callback; callbacks at the real
            # 10 ms period, so that a loss per callback adds up
            ops.insert(len(ops) - 1, "readcost %d" % rng.choice([100, 200, 300]))
            run = min(run, 15 * 1000000)
        left = run
        small = rng.random() < 0.12          # runs made only of short, equal intervals (sub-unit carries on every callback)
        sdt = rng.choice([1000, 2000, 3000, 7000])
        if small:
            left = run = min(run, 3000000)
        while left > 0:
            dt = min(left, rng.choice([1000, 5000, 10000, 10000, 20000, 100000, 250000, rng.randint(1000, 250000)]))
            if small:
                dt = min(left, sdt)
            if run > 30 * 1000000:
                dt = min(left, rng.choice([250000, 200000, 100000]))      # long runs: keep the case short
            if costly:
                dt = min(left, 10000)
            elif tt == 0 and not small and rng.random() < .05:
                dt = min(left, rng.choice([500000, 800000, 1200000]))      # now and then a callback that comes very late
            ops.append("rstick 0 %d" % dt)
            left -= dt
        ops += ["msg 110 " + set_value(8, 0, dur, [0]).hex(), "rstick 0 10000", "rstick 0 10000"]
        return F.Case("run%d" % i, ops, {"kind": "run", "tt": tt, "up": up, "opening": opening, "closing": closing, "tms": tms, "p0": p0,
                                         "t0": t0, "noshrink": True, "tags": ["kind:run", "tilt:%d" % tt, "dir:%s" % ("up" if up else "down")]})

    def fill_meta(self, case):
        """replays carry no meta: recompute it from the ops"""
        if "kind" in case.meta:
            return
        me = {"kind": None}
        for op in case.ops:
            t = op.split()
            if t[0] == "mvpos":
                me.update(kind="probe", tt=int(t[6]), up=int(t[3]), full=int(t[2]))
            elif t[0] == "rstimes":
                me.update(kind="run", opening=int(t[2]), closing=int(t[3]), tms=int(t[4]), tt=int(t[5]))
            elif t[0] == "rspos":
                me.update(p0=int(t[2]), t0=int(t[3]))
            elif t[0] == "msg" and t[1] == "110" and "up" not in me:
                v = bytes.fromhex(t[2])[9]
                if v in (1, 2):
                    me["up"] = 1 if v == 2 else 0
        if sum(1 for op in case.ops if op.startswith("msg 110 ") and bytes.fromhex(op.split()[2])[9] in (1, 2)) > 1:
            me["kind"] = "legs"
        case.meta.update(me)

    def derive_model(self, case, raw):
        self.fill_meta(case)
        if case.meta.get("kind") != "probe":
            return "", []
        ops, exp = [], []
        for op, g in zip(case.ops, raw):
            if op.startswith("mvpos "):
                t = op.split()
                ops.append("mvpos " + " ".join(t[2:]))
                exp.append([x for x in g if x.startswith("MV ")])
        return "\n".join(ops) + "\n", exp

    @staticmethod
    def reference(tt, up, F_ms, tms, p0, t0, T_us):
        """expected (position, tilt) in 0.01 % units (+100) after the motor ran T µs"""
        T = T_us / 1000.0
        pos, tilt = float(p0), float(t0)
        sgn = -1.0 if up else 1.0
        def clamp(x):
            return max(100.0, min(10100.0, x))
        if tt == 0:
            return clamp(pos + sgn * 10000.0 * T / F_ms), tilt
        if tt == 2:
            return clamp(pos + sgn * 10000.0 * T / F_ms), clamp(tilt + sgn * 10000.0 * T / tms)
        fp = F_ms - tms
        if tt == 1:
            remt = (tilt - 100 if up else 10100 - tilt) / 10000.0 * tms
            if T <= remt:
                return pos, clamp(tilt + sgn * 10000.0 * T / tms)
            return clamp(pos + sgn * 10000.0 * (T - remt) / fp), (100.0 if up else 10100.0)
        # tt == 3: tilting only at fully closed
        if up:
            if pos >= 10100:
                remt = (tilt - 100) / 10000.0 * tms
                if T <= remt:
                    return pos, clamp(tilt - 10000.0 * T / tms)
                return clamp(pos - 10000.0 * (T - remt) / fp), 100.0
            return clamp(pos - 10000.0 * T / fp), 100.0
        remp = (10100 - pos) / 10000.0 * fp
        if T <= remp:
            return clamp(pos + 10000.0 * T / fp), 100.0 if pos + 10000.0 * T / fp < 10100 else tilt
        return 10100.0, clamp((100.0 if pos < 10100 else tilt) + 10000.0 * (T - remp) / tms)

    def monitor(self, case, groups, rc, err):
        if rc != 0:
            return [F.Finding("crash", "implementation aborted (rc=%s): %s" % (rc, err[-900:]))]
        raw = case.meta.get("raw_impl") or []
        self.fill_meta(case)
        me = case.meta
        fs = []
        for g in raw:
            tick = [x for x in g if x.startswith("RSTICK ")]
            tilts = [int(x.split()[2]) for x in g if x.startswith("VALTILT 0 ")]
            nval = 0
            for x in g:
                p = x.split()
                if p[0] == "CALL" and p[1] == "value" and p[2] == "0":
                    nval += 1
                    v = int(p[3])
                    v = v - 256 if v > 127 else v
                    if not (v == -1 or 0 <= v <= 100):
                        fs.append(F.Finding("reported-out-of-range", "position %d reported to the server" % v))
                    if me.get("tt") and len(tilts) >= nval and len(tick) == 1:
                        # what is reported is the stored value (raw 100..10100 = 0..100 %) of the same callback
                        f = dict(q.split("=") for q in tick[0].split()[2:])
                        for name, rep, raw_v in (("position", v, int(f["pos"])), ("tilt", tilts[nval - 1] - (256 if tilts[nval - 1] > 127 else 0), int(f["tilt"]))):
                            if 100 <= raw_v <= 10100 and abs(rep - (raw_v - 100) / 100.0) > 1.0:
                                fs.append(F.Finding("reported-differs-from-stored", "%s stored %.2f %% but %d reported to the server" % (
                                    name, (raw_v - 100) / 100.0, rep)))
        if me.get("kind") == "probe":
            last = None
            for g in raw:
                for x in g:
                    if x.startswith("MV "):
                        pos, tilt = int(x.split()[1]), int(x.split()[2])
                        if not (100 <= pos <= 10100) or (me["tt"] and not (100 <= tilt <= 10100)):
                            fs.append(F.Finding("out-of-range", "position %d tilt %d" % (pos, tilt)))
                        if last is not None and ((me["up"] and pos > last) or (not me["up"] and pos < last)):
                            fs.append(F.Finding("moved-against-direction", "position went from %d to %d while moving %s" % (
                                last, pos, "up" if me["up"] else "down")))
                        last = pos
            return fs
        if me.get("kind") == "legs":
            # every interval belongs to the direction whose relay the callback at its end sees on
            pos, last_t, n_rev, last_dir = float(me["p0"]), None, 0, None
            final = None
            for g in raw:
                for x in g:
                    if x.startswith("RSTICK "):
                        f = dict(p.split("=") for p in x.split()[2:])
                        t = int(f["t0"])
                        d = -1 if int(f["up"]) == 1 else (1 if int(f["down"]) == 1 else 0)
                        if d and last_t is not None:
                            pos = max(100.0, min(10100.0, pos + d * 10000.0 * (t - last_t) / 1000.0 / me["opening"]))
                        if d and last_dir is not None and d != last_dir:
                            n_rev += 1
                        last_dir = d or last_dir
                        last_t = t
                        final = int(f["pos"])
            tol = 100 + (n_rev + 1) * 10000.0 * 30 / me["opening"]
            if final is not None and abs(final - pos) > tol:
                fs.append(F.Finding("position-off", "plain shutter, %d direct reversals, full travel %d ms, first run into an end stop and beyond%s: "
                                    "stored position %.2f %%, expected %.2f %% (tolerance %.2f)" % (
                                        n_rev, me["opening"], "", (final - 100) / 100.0, (pos - 100) / 100.0, tol / 100.0)))
            return fs
        if me.get("kind") != "run":
            return fs
        # run time of the motor: callbacks at which the relay of the commanded direction is on
        T = 0
        last_t = None
        on = False
        final = None
        lastpos = None
        for op, g in zip(case.ops, raw):
            for x in g:
                if x.startswith("RSTICK "):
                    f = dict(p.split("=") for p in x.split()[2:])
                    t = int(f["t0"])
                    is_on = int(f["up" if me["up"] else "down"]) == 1
                    if is_on and last_t is not None:     # the relay is switched right after a callback: the interval before a
                        T += t - last_t                  # callback that sees it on belongs to the run
                    on = is_on
                    last_t = t
                    final = (int(f["pos"]), int(f["tilt"]))
                    pos = final[0]
                    if not (100 <= pos <= 10100):
                        fs.append(F.Finding("out-of-range", "position %d" % pos))
                    if lastpos is not None and ((me["up"] and pos > lastpos) or (not me["up"] and pos < lastpos)):
                        fs.append(F.Finding("moved-against-direction", "position went from %d to %d while moving %s" % (
                            lastpos, pos, "up" if me["up"] else "down")))
                    lastpos = pos
        if final is None:
            return fs
        Fms = me["opening"] if me["up"] else me["closing"]
        ep, et = self.reference(me["tt"], me["up"], Fms, me["tms"], me["p0"], me["t0"], T)
        tol_p = 100 + 10000.0 * 30 / (Fms - (me["tms"] if me["tt"] in (1, 3) else 0))
        behind = (final[0] - ep) if me["up"] else (ep - final[0])
        maxdt = max([int(o.split()[2]) for o in case.ops if o.startswith("rstick ")] or [0])
        fp = Fms - (me["tms"] if me["tt"] in (1, 3) else 0)
        # the recorded finding needs the motor to stop right behind the callback in which tilting completed (one more callback
        # applies the remainder); a run that went on for longer and still lacks it is another matter
        if me["tt"] == 1:
            t_tilt = me["tms"] * 1000.0 * ((me["t0"] - 100) if me["up"] else (10100 - me["t0"])) / 10000.0
            stopped_right_after = T - t_tilt <= 2 * maxdt
        else:
            stopped_right_after = True
        if me["tt"] in (1, 3) and stopped_right_after and tol_p < behind <= tol_p + 10000.0 * (maxdt / 1000.0) / fp:
            fs.append(F.Finding("tilt-phase-remainder-lost",
                                "mode %d %s: the callback interval in which tilting completed (intervals up to %d ms) is not applied to the "
                                "position until the next callback and is discarded when the motor stops first: stored position %.2f %%, "
                                "expected %.2f %% after %.1f ms" % (me["tt"], "up" if me["up"] else "down", maxdt // 1000,
                                                                    (final[0] - 100) / 100.0, (ep - 100) / 100.0, T / 1000.0)))
        elif abs(final[0] - ep) > tol_p:
            fs.append(F.Finding("position-off", "mode %d %s: motor ran %.1f ms of %d ms full travel from %.2f %%: stored position %.2f %%, "
                                "expected %.2f %% (tolerance %.2f)" % (me["tt"], "up" if me["up"] else "down", T / 1000.0, Fms,
                                                                      (me["p0"] - 100) / 100.0, (final[0] - 100) / 100.0, (ep - 100) / 100.0, tol_p / 100.0)))
        if me["tt"]:
            tol_t = 100 + 10000.0 * 30 / me["tms"]
            ahead = (et - final[1]) if me["up"] else (final[1] - et)
            if me["tt"] == 2 and ahead > tol_t:
                fs.append(F.Finding("tilt-ahead-while-position-changes",
                                    "mode 2 %s: motor ran %.1f ms (full travel %d ms, tilting time %d ms): stored tilt %.2f %%, expected %.2f %% - "
                                    "the tilt estimate runs ahead of the run time" % ("up" if me["up"] else "down", T / 1000.0, Fms, me["tms"],
                                                                                     (final[1] - 100) / 100.0, (et - 100) / 100.0)))
            elif me["tt"] in (1, 3) and tol_t < -ahead <= tol_t + 10000.0 * (maxdt / 1000.0) / me["tms"]:
                fs.append(F.Finding("tilt-phase-remainder-lost",
                                    "mode %d %s: the rest of the callback interval in which the position phase completed (intervals up to %d ms) "
                                    "is not applied to the tilt and is discarded when the motor stops first: stored tilt %.2f %%, expected %.2f %%"
                                    % (me["tt"], "up" if me["up"] else "down", maxdt // 1000, (final[1] - 100) / 100.0, (et - 100) / 100.0)))
            elif abs(final[1] - et) > tol_t:
                fs.append(F.Finding("tilt-off", "mode %d %s: motor ran %.1f ms, tilting time %d ms, from tilt %.2f %% / position %.2f %%: stored "
                                    "tilt %.2f %%, expected %.2f %% (tolerance %.2f)" % (
                                        me["tt"], "up" if me["up"] else "down", T / 1000.0, me["tms"], (me["t0"] - 100) / 100.0,
                                        (me["p0"] - 100) / 100.0, (final[1] - 100) / 100.0, (et - 100) / 100.0, tol_t / 100.0)))
        return fs

    def nontrivial_key(self, case, groups):
        raw = case.meta.get("raw_impl") or []
        me = case.meta
        vals = set()
        for g in raw:
            for x in g:
                if x.startswith("MV "):
                    vals.add(x.split()[1])
                elif x.startswith("RSTICK "):
                    vals.add(x.split()[3])
        if len(vals) < 2:
            return None
        ends = any(v in ("100", "10100", "pos=100", "pos=10100") for v in vals)
        return (me.get("kind"), me.get("tt"), me.get("up"), ends, len(vals) // 5, me.get("full", me.get("opening", 0)) // 5000)


SPEC = C09()
