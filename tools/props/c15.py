"""C15 — the configuration page never reveals stored secrets."""
import common as C
import framework as F

VARIANTS = [
    ("supla_default", "base", [], []),
    ("supla_cfgbtn", "base", ["-DCFGBTN_TYPE_SELECTION"], []),
    ("supla_btn12", "base", ["-DBTN1_2_TYPE_SELECTION"], []),
    ("supla_default_nofota", "base", ["-U__FOTA"], []),
    ("mqtt", "mqtt", ["-DMQTT_SUPPORT_ENABLED"], C.MQTT_UNITS),
]
ALPH = b"ABCDEFGHIJKLMNOPQRSTUVWXYZabcdefghijklmnopqrstuvwxyz0123456789-_.@"


def rnd(rng, n, alph=ALPH):
    return bytes(rng.choice(alph) for _ in range(n))


class C15(F.Spec):
    pid = "C15"
    lean_module = "SuplaVerif.Props.C15"
    namespace = "SuplaVerif.C15"
    driver = None
    model_args = None
    rule = ("per page variant (default, config-button selection, two-button selection, without FOTA, MQTT) and per "
            "random configuration (field lengths 0..maximum, printable and binary content, long-password tail behind "
            "the e-mail terminator, state text up to its maximum, saved flag): the page is rendered by the real builder "
            "for two configurations that differ only in the secrets; the two pages must be byte-identical, NUL-terminated "
            "inside their allocation (ASan) and must not contain a 12-character secret. Non-trivial: page rendered; "
            "distinct = (variant, length class of fields).")
    assumptions = ["WellFormed configuration: every text field has its terminator inside the field (C14 preserves it)",
                   "board hooks (BOARD_CFG_HTML_TEMPLATE, additional settings, custom svg) are outside the analysed configuration"]

    def cases(self, rng, tier):
        return []

    def extra_findings(self, tier, rng):
        out, ev, nt = [], 0, set()
        n = 25 if tier == "quick" else 300
        for vname, variant, flags, units in VARIANTS:
            exe = C.build_driver("drv_page", variant, extra_units=units, extra_flags=flags)
            for i in range(n):
                ssid = rnd(rng, rng.choice([0, 1, 8, 31]))
                server = rnd(rng, rng.choice([0, 5, 30, 64]))
                user = rnd(rng, rng.choice([0, 3, 40, 120, 200]))
                state = rnd(rng, rng.choice([0, 10, 100, 298]), b"abcdefghij ,.!")
                base = ["cfg ssid " + (ssid.hex() or "-"), "cfg server " + (server.hex() or "-"),
                        "cfg guid " + rnd(rng, 16, bytes(range(256))).hex(), "cfg state " + (state.hex() or "-"),
                        "cfg flags %d" % rng.choice([0, 1, 1 | 8, 1 | 4, 1 | 2]), "cfg port %d" % rng.choice([0, 1883, 8883]),
                        "cfg btn %d" % rng.randint(0, 15), "cfg prefix " + (rnd(rng, rng.choice([0, 10, 49])).hex() or "-")]
                pages = []
                secrets = []
                for k in range(2):
                    wifipwd = rnd(rng, rng.choice([12, 20, 63]))
                    pw = rnd(rng, rng.choice([12, 32, 33]))
                    tail = rnd(rng, min(rng.choice([0, 12, 40]), max(0, 254 - len(user))))
                    authkey = rnd(rng, 16)
                    email = user + b"\0" + tail
                    ops = base + ["cfg email " + (email.hex() or "-"), "cfg wifipwd " + wifipwd.hex(),
                                  "cfg password " + pw.hex(), "cfg authkey " + authkey.hex(), "page %d" % (i % 2)]
                    rc, lines, err = C.run_lines([exe], "\n".join(ops) + "\n")
                    ev += 1
                    if rc != 0:
                        out.append((F.Finding("crash", "variant %s rc=%s %s" % (vname, rc, err[-600:])), ops))
                        break
                    pg = [x for x in lines if x.startswith("PAGE ")]
                    if not pg or pg[0] == "PAGE null":
                        out.append((F.Finding("no-page", "variant %s produced no page" % vname), ops))
                        break
                    page = bytes.fromhex(pg[0].split()[2]) if len(pg[0].split()) > 2 else b""
                    pages.append((page, ops))
                    secrets.append([wifipwd, pw[:33], tail, authkey])
                    for sname, sec in (("wifi password", wifipwd), ("password", pw), ("password tail", tail), ("authkey", authkey)):
                        if len(sec) >= 12 and sec in page:
                            out.append((F.Finding("secret-in-page", "variant %s: the %s appears in the page" % (vname, sname)), ops))
                    if not page.rstrip().endswith((b"</html>", b"</body>", b"</div>", b">")):
                        out.append((F.Finding("page-truncated", "variant %s: page does not end with a closing tag (%r)" % (vname, page[-20:])), ops))
                if len(pages) == 2:
                    nt.add((vname, len(ssid) > 8, len(user) > 40, len(state) > 100))
                    if pages[0][0] != pages[1][0]:
                        a, b = pages[0][0], pages[1][0]
                        d = next((j for j in range(min(len(a), len(b))) if a[j] != b[j]), min(len(a), len(b)))
                        out.append((F.Finding("page-depends-on-secret", "variant %s: pages for configurations differing only in secrets "
                                              "differ at byte %d: %r vs %r" % (vname, d, a[d - 10:d + 20], b[d - 10:d + 20])), pages[1][1]))
        return ev, len(nt), out


SPEC = C15()
