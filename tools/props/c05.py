"""C05 — keep-alive, silent-server reconnect and watchdog restart happen within bounds."""
import framework as F

W = 1 << 32


class C05(F.Spec):
    pid = "C05"
    lean_module = "SuplaVerif.Props.C05"
    namespace = "SuplaVerif.C05"
    driver = "drv_dev"
    variant = "cfg"
    model_args = ["keepalive"]
    rule = ("(a) single-tick decisions of timer1_cb / watchdog_cb called on the real code with chosen (timeout T in "
            "{-1,0,1,4,5,6,10..240}, uptime seconds incl. values around 2^32, last_sent, last_response, soft-watchdog "
            "challenge) at every window boundary +-1, compared with the Lean model; (b) whole scenarios in simulated time: "
            "registered device, T in 10..240, server answering pings or falling silent at a random instant, with a "
            "monitor for 'a frame in every T window', 'reconnect <= T+11 s', 'restart <= 62 s', 'no reconnect/restart "
            "for T<=50 while answered'; in part of the scenarios espconn_sent refuses a send once (INPROGRESS/MAXNUM) and accepts the retry. Non-trivial: a ping/reconnect/restart happened; distinct = (decision, T class).")
    assumptions = ["the 1 s timers fire with less than one period of jitter (each uptime second is sampled)",
                   "the server's answer to a ping is delivered within 1 s in the 'prompt server' scenarios"]

    def cases(self, rng, tier):
        n = 60 if tier == "quick" else 600
        for i in range(n):
            yield self.gen_ticks(rng, i)
        for i in range(30 if tier == "quick" else 300):
            yield self.gen_scenario(rng, i)
        # the T+11 s bound at every phase of the last received message against the 1 s timer (100 ms steps)
        for T in (10, 20, 50):
            for tp in (0, 500, 900):          # phase of the 1 s timers against the uptime seconds
                for ph in range(10):          # phase of the last received message
                    ops = ["board relay1", "boot %d" % (tp * 1000 + 1), "init", "sentbytes 1", "msg 220 %02x0af0" % T]
                    for _ in range(8):
                        ops += ["adv 1000", "pingreply"]
                    ops += ["adv %d" % (ph * 100), "pingreply force"] if ph else ["pingreply force"]
                    ops += ["adv 100"] * ((T + 13) * 10)
                    yield F.Case("edge-T%d-tp%d-ph%d" % (T, tp, ph), ops,
                                 {"tags": ["kind:edge", "T:%d" % T], "kind": "scenario", "T": T, "silent_at": 10, "tight": 1,
                                  "noshrink": 1})

    def gen_ticks(self, rng, i):
        ops = ["board relay1", "init"]
        for _ in range(25):
            T = rng.choice([-1, 0, 1, 4, 5, 6, 10, 10, 11, 50, 51, 120, 240, 255])
            base = rng.choice([100, 1000, 4000000, W - 300, W - 20, W - 5, W - 1])
            if rng.random() < .6:
                d1 = rng.choice([0, 1, T - 6, T - 5, T - 4, T - 1, T, T + 1, T + 9, T + 10, T + 11, 300])
                d2 = rng.choice([0, 1, T - 6, T - 5, T - 4, T, T + 1, T + 9, T + 10, T + 11, 59, 60, 61, 70])
                now = (base + max(d1, d2, 0)) % W
                ops.append("t1 %d %d %d %d" % (T, now, (now - max(d1, 0)) % W, (now - max(d2, 0)) % W))
            else:
                d2 = rng.choice([0, 1, 59, 60, 61, 62, 64, 65, 66, 100, T, T + 1])
                now = base + max(d2, 0)
                if now >= W:
                    now = W - 1
                lr = max(now - max(d2, 0), 0)
                ops.append("wd %d %d %d %d" % (T, now, lr, rng.choice([0, now - 1, now, now + 1, now + 65])))
        return F.Case("ticks%d" % i, ops, {"tags": ["kind:ticks"], "kind": "ticks"})

    def gen_scenario(self, rng, i):
        T = rng.choice([10, 10, 20, 50, 51, 120, 240])
        silent_at = rng.choice([None, None, rng.randint(5, 120)])
        # the boot value of the microsecond counter sets the phase of the 1 s timers against the uptime seconds
        ops = ["board relay1", "boot %d" % rng.choice([1, rng.randint(1, 999999), 950000, W - rng.randint(5, 140) * 1000000 - rng.randint(0, 999999)]),
               "init", "sentbytes 1", "msg 220 %02x0af0" % T]      # (the last one: the 32-bit counter wraps inside the scenario)
        t = 0
        end = 150000
        # arbitrary local traffic: the device keeps sending channel values the server does not answer; only pings are answered
        traffic = rng.choice([0, 0, 1500, 2500, 4000])
        next_tx = traffic
        # a network layer that refuses a send once (operation in progress / queue full) and accepts the retry of the
        # parked bytes: the device's own delayed transmissions must not count as server activity
        flaky = rng.choice([0, 0, .3, 1.0])
        # a server that falls silent but whose host still resolves and accepts TCP connections (and possibly drops them
        # again): a new connection is not a received message, the "nothing received for more than 62 s" clause still applies
        accepting = rng.choice([0, 1, 1]) if silent_at else 0
        drop_every = rng.choice([0, 0, 7000, 15000, 30000]) if accepting else 0
        next_drop = (silent_at or 0) * 1000 + drop_every
        while t < end:
            step = rng.choice([100, 300, 700, 1000])
            if flaky and rng.random() < flaky:
                ops += ["espclear", "esp %d" % rng.choice([-5, -7])]
            ops.append("adv %d" % step)
            t += step
            if traffic and t >= next_tx:
                ops.append("localev 0")
                next_tx = t + traffic
            if silent_at is None or t < silent_at * 1000:
                ops.append("pingreply")          # the driver answers a pending ping (see harness)
            elif accepting:
                ops += ["dnsreply 10.0.0.7", "tcpup"]     # no-ops unless the device asked for them
                if drop_every and t >= next_drop:
                    ops.append("tcpdown")
                    next_drop = t + drop_every
        return F.Case("scen%d-T%d-%s%s" % (i, T, "silent" if silent_at else "ok", "-traffic" if traffic else ""), ops,
                      {"tags": ["kind:scenario", "T:%d" % T, "traffic:%d" % (1 if traffic else 0), "flaky:%s" % flaky, "accepting:%d" % accepting], "kind": "scenario", "T": T,
                       "silent_at": silent_at})

    def extra_static(self, tier):
        """theorem c05_silent_history_restarts models last_response with one writer (a received call): the source must have
        exactly that one assignment, inside supla_esp_on_remote_call_received"""
        import os, re, common as C
        src = open(os.path.join(C.REPO, "src/user/supla_esp_devconn.c")).read()
        writes = [m.start() for m in re.finditer(r"last_response\s*=[^=]", src)]
        m = re.search(r"supla_esp_on_remote_call_received\s*\([^)]*\)\s*\{", src)
        ok = len(writes) == 1 and m is not None and m.end() < writes[0] and \
            "\n}" in src[writes[0]:] and "\n}" not in src[m.end():writes[0]]
        return [("last_response has one writer, in supla_esp_on_remote_call_received (C05.3b)", ok,
                 "" if ok else "assignments of devconn->last_response found at offsets %s" % writes)]

    def derive_model(self, case, raw):
        ops, exp = [], []
        for op, g in zip(case.ops, raw):
            if op.startswith(("t1 ", "wd ")):
                ops.append(op)
                exp.append([x for x in g if x.startswith("DECISION ")])
        return "\n".join(ops) + "\n", exp

    def monitor(self, case, groups, rc, err):
        if rc != 0:
            return [F.Finding("crash", "implementation aborted (rc=%s): %s" % (rc, err[-900:]))]
        fs = []
        if case.meta.get("kind") != "scenario":
            return fs
        raw = case.meta.get("raw_impl") or []
        T = case.meta["T"]
        now, last_tx, last_rx, recovered = 0, 0, 0, None
        for op, g in zip(case.ops, raw):
            t = op.split()
            if t[0] == "adv":
                now += int(t[1])
            if any(x.startswith("SENT 0 ") for x in g):
                if now - last_tx > (T + 1) * 1000 and recovered is None:
                    fs.append(F.Finding("no-frame-in-activity-window", "T=%d: nothing transmitted between %d and %d ms" % (T, last_tx, now)))
                last_tx = now
            if "PINGREPLY" in g or t[0] == "msg":
                last_rx = now
            if "TCPDOWN" in g and recovered is None:
                recovered = now          # the peer closed the connection: what follows is not the device's own timing
            rec = any(x in ("DISCONNECT", "RESTART") for x in g)
            if rec and recovered is None:
                recovered = now
                answered = case.meta.get("silent_at") is None or now < case.meta["silent_at"] * 1000
                if answered and T <= 50:
                    fs.append(F.Finding("spurious-reconnect", "T=%d: reconnect/restart at %d ms although the server answered (last rx %d)"
                                        % (T, now, last_rx)))
                if now - last_rx < min(T + 10, 60) * 1000 - 1000:
                    fs.append(F.Finding("early-reconnect", "T=%d: recovery %d ms after the last received message" % (T, now - last_rx)))
        if case.meta.get("silent_at") is not None and last_rx <= case.meta["silent_at"] * 1000:
            # whatever was tried in between (reconnects), a device that hears nothing at all restarts itself
            t_restart, t2 = None, 0
            for op, g in zip(case.ops, raw):
                if op.startswith("adv "):
                    t2 += int(op.split()[1])
                if "RESTART" in g and t_restart is None:
                    t_restart = t2
            if t_restart is None and now - last_rx > 63 * 1000 + 1100:
                fs.append(F.Finding("no-watchdog-restart", "T=%d: nothing received for %d ms and the device did not restart itself" % (T, now - last_rx)))
            elif t_restart is not None and t_restart - last_rx > 63 * 1000 + 1100:
                fs.append(F.Finding("late-watchdog-restart", "T=%d: restart %d ms after the last received message" % (T, t_restart - last_rx)))
            elif t_restart is not None and t_restart - last_rx < 60 * 1000 - 1100:
                fs.append(F.Finding("early-watchdog-restart", "T=%d: restart only %d ms after the last received message" % (T, t_restart - last_rx)))
        slack = 100 if case.meta.get("tight") else 1100   # granularity of the time steps in the case
        if case.meta.get("silent_at") is not None and recovered is None:
            bound = min(T + 11, 62) * 1000 + slack
            if now - last_rx > bound:
                fs.append(F.Finding("no-recovery", "T=%d: server silent for %d ms and neither reconnect nor restart happened" % (T, now - last_rx)))
        elif recovered is not None and case.meta.get("silent_at") is not None:
            bound = min(T + 11, 62) * 1000 + slack
            if recovered - last_rx > bound and last_rx <= case.meta["silent_at"] * 1000:
                fs.append(F.Finding("late-recovery", "T=%d: recovery %d ms after the last received message (bound %d)" % (T, recovered - last_rx, bound)))
        return fs

    def nontrivial_key(self, case, groups):
        raw = case.meta.get("raw_impl") or []
        ds = [x.split()[1] for g in raw for x in g if x.startswith("DECISION ")]
        ev = [x for g in raw for x in g if x in ("DISCONNECT", "RESTART", "PINGREPLY")]
        if not [d for d in ds if d != "none"] and not ev:
            return None
        return (case.meta.get("kind"), case.meta.get("T"), tuple(ds[:12]), len(ev) // 5)


SPEC = C05()
