"""C11 — inputs: glitches are ignored and every real actuation acts exactly once."""
import framework as F


class C11(F.Spec):
    pid = "C11"
    lean_module = "SuplaVerif.Props.C11"
    namespace = "SuplaVerif.C11"
    driver = "drv_dev"
    variant = "cfg"
    model_args = ["debounce"]
    rule = ("(a) the real debounce callback on chosen sampled level sequences (bounce bursts, pulses of 1-12 samples, "
            "long stable runs) from the idle and from an interrupted state, compared sample by sample with the Lean "
            "model (step, value, state changes); (b) relay boards in simulated time: pulse trains with widths/gaps "
            "1 ms..3 s at every phase of the 20 ms sampling timer on monostable (press/release trigger), bistable inputs; "
            "monitor: pulses shorter than 100 ms change nothing, a change stable for >= 140 ms is recognised exactly once "
            "within 120 ms (+ op granularity), each recognised actuation toggles the relay exactly once. "
            "(c) action-trigger mode: bursts of 1-7 quick clicks, long presses, pauses and changes of the active set on monostable/"
            "bistable buttons with and without a relay, default and changed hold/multi-click times: every recognised state change "
            "(time-stamped by the board notification hook) is replayed through the Lean model, which must reproduce every trigger "
            "and local relay action in order and max_clicks/relay connection after every set_active_triggers; monitors for clean "
            "gestures (resolved once as min(N, highest multiplicity)) and holds; presses one counter period after init; contact "
            "bounce. Non-trivial: a state change was recognised or a glitch ignored; distinct = (input type, widths class / triggers).")
    assumptions = ["an edge interrupt is delivered at every level change (the ~20 us irq-lock window during relay switching is "
                   "not modelled)", "action-trigger mode: monostable and bistable buttons on relay boards (Model/InputAt); motion sensors and shutter buttons in action-trigger mode are not generated",
                   "contact-bounce trains keep every level longer than the 20 ms sampling period (shorter blips are invisible to a sampled input)"]

    def cases(self, rng, tier):
        for i in range(60 if tier == "quick" else 800):
            yield self.gen_probe(rng, i)
        for i in range(60 if tier == "quick" else 800):
            yield self.gen_scenario(rng, i)
        for i in range(3 if tier == "quick" else 12):
            yield self.gen_scenario(rng, i, late=True)
        for i in range(80 if tier == "quick" else 1200):
            yield self.gen_at(rng, i)
        for i in range(10 if tier == "quick" else 60):
            yield self.gen_at_chain(rng, i)

    def gen_at_chain(self, rng, i):
        """monostable button: a few quick clicks and then a press kept down beyond the hold time, with the hold trigger and
        multiplicities above the number of clicks enabled - the long press is one more click of the gesture, not a hold"""
        has_relay = i % 2 == 0
        cap = sum(self.PRESS) | 1024
        hold, multi = [self.at_defaults(), (700, 300), (1000, 350)][i % 3]
        M = 3 + i % 3
        active = 1024 | sum(self.PRESS[1:M]) | (self.PRESS[0] if i % 4 == 1 else 0)
        n = 1 + (i // 3) % (M - 2)
        ops = ["board relay2", "inlevel 9 1", "inlevel 10 1", "intype 1 2", "incap 1 5 %d" % cap]
        if not has_relay:
            ops.append("inrelay 1 255")
        ops += ["init", "adv 1000", "inlog 1", "calllog 1"]
        if (hold, multi) != self.at_defaults():
            ops.append("attimes %d %d" % (hold, multi))
        ops += ["attrig 1 %d" % active, "adv 900", "pingreply", "adv 900", "pingreply", "adv 900", "pingreply"]
        for _ in range(n):
            ops += ["input 10 0", "advus %d" % rng.randint(141000, min(multi, hold) * 1000 - 80000),
                    "input 10 1", "advus %d" % rng.randint(141000, multi * 1000 - 80000)]
        ops.append("input 10 0")
        left = hold * 1000 + rng.randint(100000, 500000)
        while left > 0:
            k = min(left, 900000)
            ops.append("advus %d" % k)
            left -= k
            if k == 900000:
                ops.append("pingreply")
        ops += ["input 10 1", "adv 900", "pingreply", "adv 900", "pingreply", "adv 900"]
        return F.Case("atchain%d" % i, ops, {"tags": ["kind:at", "type:2", "relay:%d" % has_relay, "clicks-then-long-press"], "kind": "at", "typ": 2,
                                             "has_relay": has_relay, "cap": cap, "hold": hold, "multi": multi, "noshrink": True})

    def gen_probe(self, rng, i):
        ops = ["board relay4", "init", "adv 1000"]
        for _ in range(6):
            bits = ""
            cur = rng.choice("01")
            for _ in range(rng.randint(1, 8)):
                n = rng.choice([1, 1, 2, 3, 4, 5, 6, 7, 8, 12])
                bits += cur * n
                cur = "1" if cur == "0" else "0"
            ops.append("debprobe %d %s" % (rng.randrange(4), bits))
        return F.Case("probe%d" % i, ops, {"tags": ["kind:probe"], "kind": "probe"})

    def gen_scenario(self, rng, i, late=False):
        pin = 10          # input 1: plain monostable button on relay gpio 2, pull-up (idle level 1)
        ops = ["board relay2", "init", "adv 1000"]
        if not late and i % 2:
            # the same button on one of the GPIOs 0..7 (the interrupt handler treats those pins specially when it clears what it
            # did not serve): every edge still has to be seen
            pin = rng.choice([4, 5, 7])
            ops = ["board relay2", "inpin 1 %d" % pin, "inlevel %d 1" % pin, "init", "adv 1000"]
        ops.append("input %d 1" % pin)
        ops.append("adv 500")
        if late:
            # the device has been up for one full period of the 32-bit microsecond counter (71.6 min; the server answers
            # the pings): the presses fall into the first 400 ms after init_time + 2^32 us
            for _ in range(4292):
                ops += ["adv 1000", "pingreply"]
            ops.append("adv %d" % (4294967 - 4292000 - 1500 - 300 - rng.randint(0, 250)))
        pulses = []
        for _ in range(rng.randint(1, 5) if not late else 2):
            w = rng.choice([1, 5, 19, 20, 21, 50, 79, 80, 85, 90, 95, 99, 140, 141, 160, 200, 500, 1500]) if not late else rng.choice([140, 160, 200])
            phase = rng.randint(0, 19)
            ops.append("adv %d" % (300 + phase))
            if rng.random() < 0.4:
                # a contact spike shortly before the pulse: the sampling timer is already running when the pulse starts
                sp, gap = rng.choice([1, 2, 3]), rng.choice([3, 8, 13, 17])
                ops += ["input %d 0" % pin, "adv %d" % sp, "input %d 1" % pin, "adv %d" % gap]
            if not late and rng.random() < .3:
                # contact bounce: the level alternates, every level lasts longer than one sampling period (so it is sampled)
                # and less than 100 ms: six equal samples in a row cannot occur, nothing may be recognised
                for _ in range(rng.randint(3, 9)):
                    ops += ["input %d 0" % pin, "adv %d" % rng.choice([27, 33, 40, 55, 70, 85]),
                            "input %d 1" % pin, "adv %d" % rng.choice([27, 33, 40, 55, 70, 85])]
                    pulses.append(1)
                for _ in range(30):
                    ops.append("adv 10")
                continue
            ops.append("input %d 0" % pin)
            # advance in 10 ms steps so that state changes are time-stamped to 10 ms
            left = w
            while left > 0:
                s = min(10, left)
                ops.append("adv %d" % s)
                left -= s
            ops.append("input %d 1" % pin)
            for _ in range(30):
                ops.append("adv 10")
            pulses.append(w)
        return F.Case("scen%d%s" % (i, "-late" if late else ""), ops, {"tags": ["kind:scenario"] + (["late"] if late else []), "kind": "scenario", "pulses": pulses, "pin": pin,
                                                                          "noshrink": late})

    PRESS = [1 << (10 + k) for k in range(1, 6)]
    TOGGLE = [1 << (1 + k) for k in range(1, 6)]

    def at_defaults(self):
        """BTN_HOLD_TIME_MS / BTN_MULTICLICK_TIME_MS as regenerated from the source"""
        if not hasattr(self, "_atd"):
            import re, os, common as C
            txt = open(os.path.join(C.LEAN, "SuplaVerif", "Gen", "Consts.lean")).read()
            self._atd = (int(re.search(r"def atHoldMs : Nat := (\d+)", txt).group(1)), int(re.search(r"def atMultiMs : Nat := (\d+)", txt).group(1)))
        return self._atd

    def gen_at(self, rng, i):
        """action-trigger mode: bursts of quick clicks, long presses and pauses on a monostable or bistable button with a
        random set of active triggers (changed in between), with and without a relay behind the button"""
        typ = rng.choice([2, 2, 4])
        has_relay = rng.random() < .75
        cap = sum(self.PRESS) | 1024 if typ == 2 else sum(self.TOGGLE) | 3
        hold, multi = rng.choice([self.at_defaults(), self.at_defaults(), (500, 400), (1000, 350)])
        ops = ["board relay2", "inlevel 9 1", "inlevel 10 1", "intype 1 %d" % typ, "incap 1 5 %d" % cap]
        if not has_relay:
            ops.append("inrelay 1 255")
        ops += ["init", "adv 1000", "inlog 1", "calllog 1"]
        if (hold, multi) != self.at_defaults():
            ops.append("attimes %d %d" % (hold, multi))

        def mask():
            pool = (self.PRESS + [1024]) if typ == 2 else (self.TOGGLE + [1, 2])
            m = 0
            for b in pool:
                if rng.random() < .4:
                    m |= b
            if rng.random() < .15:
                m |= 1 << 20            # something the input is not capable of
            return m or rng.choice(pool)
        cur = [mask()]
        ops.append("attrig 1 %d" % cur[0])
        lvl = 1
        lvl_box, glitches = [1], [0]

        def wait0(us):
            while us > 0:                # cut so that the keep-alive is answered in long pauses
                k = min(us, 900000)
                ops.append("advus %d" % k)
                us -= k
                if k == 900000:
                    ops.append("pingreply")

        def wait(us):
            # now and then a contact glitch (27..85 ms, not a recognisable change) in the middle of the wait: while a click window
            # is open, during a hold, in a pause.  It must change nothing: the pending gesture resolves as without it.
            if us >= 400000 and rng.random() < .3:
                g = rng.randint(27000, 85000)
                a = rng.randint(150000, us - g - 160000)
                wait0(a)
                ops.append("input 10 %d" % (1 - lvl_box[0]))
                ops.append("advus %d" % g)
                ops.append("input 10 %d" % lvl_box[0])
                wait0(us - a - g)
                glitches[0] += 1
            else:
                wait0(us)
        for _ in range(rng.randint(1, 5)):
            g = rng.choice(["clicks", "clicks", "clicks", "hold", "retrig"])
            if g == "clicks":
                for _ in range(rng.randint(1, 7)):
                    lvl = 1 - lvl
                    lvl_box[0] = lvl
                    ops.append("input 10 %d" % lvl)
                    wait(rng.randint(141000, min(multi, hold) * 1000 - 25000))
                    if typ == 2:
                        lvl = 1 - lvl
                        lvl_box[0] = lvl
                        ops.append("input 10 %d" % lvl)
                        wait(rng.randint(141000, multi * 1000 - 25000))
                    if rng.random() < .12:
                        # the server repeats the configuration it already sent (it does after every registration): the set of
                        # triggers is the same, a gesture in progress goes on
                        ops.append("attrig 1 %d" % cur[0])
            elif g == "hold":
                lvl = 1 - lvl
                lvl_box[0] = lvl
                ops.append("input 10 %d" % lvl)
                wait(rng.randint(hold * 1000 - 150000, hold * 1000 + 600000))
                if typ == 2:
                    lvl = 1 - lvl
                    lvl_box[0] = lvl
                    ops.append("input 10 %d" % lvl)
            else:
                if rng.random() < .6:
                    cur[0] = mask()
                ops.append("attrig 1 %d" % cur[0])
            wait(rng.choice([rng.randint(141000, multi * 1000 - 25000), multi * 1000 + rng.randint(150000, 400000), 1200000]))
        wait(1500000)
        return F.Case("at%d-%s" % (i, "mono" if typ == 2 else "bi"), ops,
                      {"tags": ["kind:at", "type:%d" % typ, "relay:%d" % has_relay, "glitches:%d" % min(glitches[0], 3)], "kind": "at", "typ": typ, "has_relay": has_relay,
                       "cap": cap, "hold": hold, "multi": multi, "noshrink": True})

    def derive_at(self, case, raw):
        me = case.meta
        ops = ["atcfg %d %d 5 %d 0 0 0 %d %d 5000" % (me["typ"], me["cap"], 1 if me["has_relay"] else 0, me["hold"], me["multi"])]
        exp = [[]]
        live = False
        for op, g in zip(case.ops, raw):
            t = op.split()
            tnow = [x for x in g if x.startswith("TNOW ")]
            if t[0] == "attrig":
                cfg = [x for x in g if x.startswith("ATCFG 1 ")]
                if not cfg:
                    break
                f = dict(kv.split("=") for kv in cfg[0].split()[2:])
                ops.append("attrig %s" % t[2])
                exp.append(["ATCFG active=%s max=%s relay=%d" % (f["active"], f["max"], 0 if f["relay"] == "255" else 1)])
                live = f["active"] != "0"
                continue
            if not live or not tnow or t[0] not in ("advus", "adv", "input", "pingreply"):
                continue
            evs = ["%s@%s" % (x.split()[2], x.split()[3]) for x in g if x.startswith("INCHG 1 ")]
            ops.append("span %s %s" % (tnow[-1].split()[1], " ".join(evs)))
            want = []
            for x in g:
                if x.startswith("CALL at 5 "):
                    want.append("AT trig " + x.split()[4])
                elif x.startswith("RELAYHI 2 "):
                    want.append("AT local")
            exp.append(want)
        return "\n".join(ops) + "\n", exp

    def derive_model(self, case, raw):
        if case.meta.get("kind") == "at" or (case.meta.get("kind") is None and any(o.startswith("attrig ") for o in case.ops)):
            return self.derive_at(case, raw)
        ops, exp = [], []
        for op, g in zip(case.ops, raw):
            if op.startswith("debprobe "):
                lines = [x for x in g if x.startswith(("INSTATE", "STEP", "NOTIFY"))]
                if not lines:
                    continue
                inst = lines[0].split()[1]
                # the real state before the probe: after the previous probe the machine may be mid-sequence
                prev = getattr(self, "_dummy", None)
                ops.append("debprobe %s %s %s %s" % (inst, case.meta.setdefault("_st", {}).get(op.split()[1], "0 0").split()[0],
                                                     case.meta["_st"].get(op.split()[1], "0 0").split()[1], op.split()[2]))
                exp.append(lines)
                last = [x for x in lines if x.startswith("STEP")][-1].split()
                case.meta["_st"][op.split()[1]] = "%s %s" % (last[1], last[2])
        return "\n".join(ops) + "\n", exp

    def monitor(self, case, groups, rc, err):
        if rc != 0:
            return [F.Finding("crash", "implementation aborted (rc=%s): %s" % (rc, err[-900:]))]
        fs = []
        if case.meta.get("kind") == "at":
            return self.monitor_at(case)
        if case.meta.get("kind") != "scenario":
            return fs
        raw = case.meta.get("raw_impl") or []
        now, down_at, events, toggles = 0, None, [], []
        pulses = []
        for op, g in zip(case.ops, raw):
            t = op.split()
            if t[0] == "adv":
                now += int(t[1])
            if t[0] == "input" and int(t[1]) == case.meta.get("pin", 10):
                if t[2] == "0":
                    down_at = now
                elif down_at is not None:
                    pulses.append((down_at, now))
                    down_at = None
            for x in g:
                if x.startswith("CHG InState 1 "):
                    events.append((now, int(x.split()[3])))
                if x.startswith("GPIO 2 "):
                    toggles.append(now)
        for (a, b) in pulses:
            w = b - a
            act = [e for e in events if a <= e[0] <= b + 150 and e[1] == 1]
            rel = [e for e in events if b <= e[0] <= b + 300 and e[1] == 0]
            # (an actuation that falls into a press of 100 ms or more belongs to that press, not to a spike before it)
            act_short = [e for e in act if not any(a2 <= e[0] <= b2 + 150 for (a2, b2) in pulses if b2 - a2 >= 100)]
            if w < 100 and act_short:
                fs.append(F.Finding("glitch-recognised", "a %d ms pulse was recognised as an actuation" % w))
            if w >= 140:
                if len(act) != 1:
                    fs.append(F.Finding("actuation-not-once", "a %d ms press was recognised %d times" % (w, len(act))))
                elif act[0][0] - a > 120 + 10:
                    fs.append(F.Finding("actuation-late", "a %d ms press was recognised after %d ms" % (w, act[0][0] - a)))
                if len(rel) != 1:
                    fs.append(F.Finding("release-not-once", "release after a %d ms press recognised %d times" % (w, len(rel))))
        n_act = sum(1 for e in events if e[1] == 1)
        if len(toggles) != n_act:
            fs.append(F.Finding("relay-toggle-count", "%d recognised presses but %d relay changes" % (n_act, len(toggles))))
        return fs

    def monitor_at(self, case):
        """independent reading of the property on clean gestures: a burst of N quick clicks (all presses shorter than the hold
        time, all gaps shorter than the multi-click time, quiet before and after, the set of active triggers unchanged) is
        resolved once, as min(N, highest enabled multiplicity) clicks: the local relay action for one click (if the relay
        is still connected to the button), otherwise the trigger of that count if it is enabled; nothing else"""
        me = case.meta
        raw = me.get("raw_impl") or []
        typ, hold, multi = me["typ"], me["hold"] * 1000, me["multi"] * 1000
        count_bits = self.PRESS if typ == 2 else self.TOGGLE
        ev = []            # (time, kind, value)
        tnow = 0
        for op, g in zip(case.ops, raw):
            for x in g:
                p = x.split()
                if p[0] == "INCHG" and p[1] == "1":
                    ev.append((int(p[3]), "chg", int(p[2])))
                elif p[0] == "ATCFG" and p[1] == "1":
                    f = dict(kv.split("=") for kv in p[2:])
                    # whether the button still acts on its relay is not taken from the device: a button with a relay keeps it unless
                    # the trigger for one click of its own kind is active (then the single click belongs to the server)
                    conn = bool(me.get("has_relay")) and not (int(f["active"]) & count_bits[0])
                    ev.append((int(f["now"]), "cfg", (int(f["active"]), int(f["max"]), conn)))
                elif p[0] == "CALL" and p[1] == "at" and p[2] == "5":
                    ev.append((int(p[5]), "trig", int(p[4])))
                elif p[0] == "RELAYHI" and p[1] == "2":
                    ev.append((int(p[3]), "local", 0))
                elif p[0] == "TNOW":
                    tnow = int(p[1])
        # triggers carry the time of the end of their op; order within the list is the order of the trace
        fs = []
        cfg = None
        chg = [(t, v) for t, k, v in ev if k == "chg"]
        cfgs = [(t, v) for t, k, v in ev if k == "cfg"]
        outs = [(t, k, v) for t, k, v in ev if k in ("trig", "local")]
        # every trigger must be active at the time, every count trigger / local action belongs to some click
        for t, k, v in outs:
            act = [c for ct, c in cfgs if ct <= t]
            if k == "trig" and act and not (v & act[-1][0]):
                fs.append(F.Finding("inactive-trigger-sent", "trigger %d sent while the active set is %d" % (v, act[-1][0])))
        # clicks: monostable = press..release pairs; bistable = every change
        if typ == 2:
            clicks = []
            for j in range(len(chg) - 1):
                if chg[j][1] == 1 and chg[j + 1][1] == 0:
                    clicks.append((chg[j][0], chg[j + 1][0]))
        else:
            clicks = [(t, t) for t, v in chg]
        # bursts of quick clicks
        bursts, cur = [], []
        for c in clicks:
            if cur and c[0] - cur[-1][1] < multi - 60000:
                cur.append(c)
            else:
                if cur:
                    bursts.append(cur)
                cur = [c]
        if cur:
            bursts.append(cur)
        for bi, b in enumerate(bursts):
            t0, t1 = b[0][0], b[-1][1]
            prev_end = bursts[bi - 1][-1][1] if bi else 0
            next_start = bursts[bi + 1][0][0] if bi + 1 < len(bursts) else None
            act = [c for ct, c in cfgs if ct <= t0]
            if not act or act[-1][0] == 0:
                continue
            active, _, relay_conn = act[-1]
            if any(t0 - 2 * multi - hold <= ct <= t1 + 2 * multi and c != act[-1] for ct, c in cfgs):
                continue          # the active set changed around the burst (the same set sent once more is no change)
            if t0 - prev_end < multi + 100000 and bi:
                continue          # not clearly separated from the previous burst
            if next_start is not None and next_start - t1 < multi + 100000:
                continue
            if typ == 2 and any(r - p >= hold - 60000 for p, r in b):
                continue          # contains a long press: judged below
            if any(b[j + 1][0] - b[j][1] > multi - 60000 for j in range(len(b) - 1)):
                continue
            N = len(b)
            M = max([k + 1 for k in range(5) if active & count_bits[k]] or [0])
            win = [(t, k, v) for t, k, v in outs if t0 <= t <= t1 + multi + 1000000 and (next_start is None or t < next_start)]
            cnt_tr = [v for t, k, v in win if k == "trig" and v in count_bits]
            loc = [1 for t, k, v in win if k == "local"]
            if M >= 2:
                kk = min(N, M)
                want_loc = 1 if (kk == 1 and relay_conn) else 0
                want_tr = [count_bits[kk - 1]] if (not want_loc and active & count_bits[kk - 1]) else []
            else:
                # no multiplicity above one is enabled: every click is a gesture of its own
                want_loc = N if relay_conn else 0
                want_tr = [count_bits[0]] * N if (not relay_conn and active & count_bits[0]) else []
            if cnt_tr != want_tr or len(loc) != want_loc:
                fs.append(F.Finding("gesture-resolved-wrongly", "%d quick clicks, active set %d (highest multiplicity %d), relay %s: "
                                    "click triggers %s and %d local actions, expected %s and %d" % (
                                        N, active, M, "connected" if relay_conn else "not connected", cnt_tr, len(loc), want_tr, want_loc)))
        # a single long press from idle: one hold trigger if enabled, no click trigger, no local action
        if typ == 2:
            for j, (p, r) in enumerate(clicks):
                act = [c for ct, c in cfgs if ct <= p]
                if not act or act[-1][0] == 0 or any(p - 2 * multi - hold <= ct <= r + 2 * multi for ct, c in cfgs):
                    continue
                if r - p < hold + 60000:
                    continue
                before = clicks[j - 1][1] if j else 0
                after = clicks[j + 1][0] if j + 1 < len(clicks) else None
                if (j and p - before < multi + 100000) or (after is not None and after - r < multi + 100000):
                    continue
                win = [(t, k, v) for t, k, v in outs if p <= t <= r + multi + 1000000 and (after is None or t < after)]
                holds = [v for t, k, v in win if k == "trig" and v == 1024]
                others = [v for t, k, v in win if (k == "trig" and v in count_bits) or k == "local"]
                want = [1024] if act[-1][0] & 1024 else []
                if holds != want or others:
                    fs.append(F.Finding("hold-resolved-wrongly", "a %d ms press from idle (hold time %d ms, active set %d): hold triggers %s, "
                                        "click triggers/local actions %d" % ((r - p) // 1000, hold // 1000, act[-1][0], holds, len(others))))
        # a long press that continues a gesture of quick clicks is one more click of that gesture, not a hold
        if typ == 2:
            for j, (p, r) in enumerate(clicks):
                act = [c for ct, c in cfgs if ct <= p]
                if not j or not act or act[-1][0] == 0 or r - p < hold + 60000:
                    continue
                M = max([k + 1 for k in range(5) if act[-1][0] & count_bits[k]] or [0])
                n, k = 0, j
                while k > 0 and clicks[k][0] - clicks[k - 1][1] < multi - 60000 and clicks[k - 1][1] - clicks[k - 1][0] < hold - 60000:
                    n, k = n + 1, k - 1
                if n == 0 or n > M - 2:
                    continue
                if k and clicks[k][0] - clicks[k - 1][1] < multi + 100000:
                    continue          # the chain is not clearly separated from what came before
                if any(clicks[k][0] - 2 * multi - hold <= ct <= r + 2 * multi and c != act[-1] for ct, c in cfgs):
                    continue
                holds = [v for t, kd, v in outs if kd == "trig" and v == 1024 and p <= t <= r + 100000]
                if holds:
                    fs.append(F.Finding("hold-inside-gesture", "%d quick clicks and then a %d ms press (hold time %d ms, active set %d, highest "
                                        "multiplicity %d): a hold trigger is sent for the press that is click %d of the gesture" % (
                                            n, (r - p) // 1000, hold // 1000, act[-1][0], M, n + 1)))
        return fs

    def nontrivial_key(self, case, groups):
        if case.meta.get("kind") == "at":
            raw = case.meta.get("raw_impl") or []
            tr = sorted(set(x.split()[4] for g in raw for x in g if x.startswith("CALL at 5 ")))
            loc = sum(1 for g in raw for x in g if x.startswith("RELAYHI 2 "))
            return ("at", case.meta["typ"], tuple(tr[:6]), min(loc, 3))
        raw = case.meta.get("raw_impl") or []
        n = sum(1 for g in raw for x in g if x.startswith(("NOTIFY", "CHG InState")))
        st = sum(1 for g in raw for x in g if x.startswith("STEP"))
        if n == 0 and st == 0:
            return None
        return (case.meta.get("kind"), min(n, 8), tuple(sorted(set(min(p // 50, 5) for p in case.meta.get("pulses", [])))), st // 10)


SPEC = C11()
