"""C11 — inputs: glitches are ignored and every real actuation acts exactly once."""
import framework as F


class C11(F.Spec):
    pid = "C11"
    lean_module = "SuplaVerif.Props.C11"
    namespace = "SuplaVerif.C11"
    driver = "drv_dev"
    variant = "cfg"
    model_args = ["debounce"]
    rule = ("(a) the real debounce callback on chosen sampled level sequences (bounce bursts, pulses of 1-12 samples, "
            "long stable runs) from the idle and from an interrupted state, compared sample by sample with the Lean "
            "model (step, value, state changes); (b) relay boards in simulated time: pulse trains with widths/gaps "
            "1 ms..3 s at every phase of the 20 ms sampling timer on monostable (press/release trigger), bistable inputs; "
            "monitor: pulses shorter than 100 ms change nothing, a change stable for >= 140 ms is recognised exactly once "
            "within 120 ms (+ op granularity), each recognised actuation toggles the relay exactly once. "
            "Non-trivial: a state change was recognised or a glitch ignored; distinct = (input type, widths class).")
    assumptions = ["an edge interrupt is delivered at every level change (the ~20 us irq-lock window during relay switching is "
                   "not modelled)", "action-trigger/multi-click/hold gestures are covered by the repository's own tests only"]

    def cases(self, rng, tier):
        for i in range(60 if tier == "quick" else 800):
            yield self.gen_probe(rng, i)
        for i in range(60 if tier == "quick" else 800):
            yield self.gen_scenario(rng, i)
        for i in range(3 if tier == "quick" else 12):
            yield self.gen_scenario(rng, i, late=True)

    def gen_probe(self, rng, i):
        ops = ["board relay4", "init", "adv 1000"]
        for _ in range(6):
            bits = ""
            cur = rng.choice("01")
            for _ in range(rng.randint(1, 8)):
                n = rng.choice([1, 1, 2, 3, 4, 5, 6, 7, 8, 12])
                bits += cur * n
                cur = "1" if cur == "0" else "0"
            ops.append("debprobe %d %s" % (rng.randrange(4), bits))
        return F.Case("probe%d" % i, ops, {"tags": ["kind:probe"], "kind": "probe"})

    def gen_scenario(self, rng, i, late=False):
        ops = ["board relay2", "init", "adv 1000"]
        pin = 10          # input 1: plain monostable button on relay gpio 2, pull-up (idle level 1)
        ops.append("input %d 1" % pin)
        ops.append("adv 500")
        if late:
            # the device has been up for one full period of the 32-bit microsecond counter (71.6 min; the server answers
            # the pings): the presses fall into the first 400 ms after init_time + 2^32 us
            for _ in range(4292):
                ops += ["adv 1000", "pingreply"]
            ops.append("adv %d" % (4294967 - 4292000 - 1500 - 300 - rng.randint(0, 250)))
        pulses = []
        for _ in range(rng.randint(1, 5) if not late else 2):
            w = rng.choice([1, 5, 19, 20, 21, 50, 79, 80, 85, 90, 95, 99, 140, 141, 160, 200, 500, 1500]) if not late else rng.choice([140, 160, 200])
            phase = rng.randint(0, 19)
            ops.append("adv %d" % (300 + phase))
            if rng.random() < 0.4:
                # a contact spike shortly before the pulse: the sampling timer is already running when the pulse starts
                sp, gap = rng.choice([1, 2, 3]), rng.choice([3, 8, 13, 17])
                ops += ["input %d 0" % pin, "adv %d" % sp, "input %d 1" % pin, "adv %d" % gap]
            ops.append("input %d 0" % pin)
            # advance in 10 ms steps so that state changes are time-stamped to 10 ms
            left = w
            while left > 0:
                s = min(10, left)
                ops.append("adv %d" % s)
                left -= s
            ops.append("input %d 1" % pin)
            for _ in range(30):
                ops.append("adv 10")
            pulses.append(w)
        return F.Case("scen%d%s" % (i, "-late" if late else ""), ops, {"tags": ["kind:scenario"] + (["late"] if late else []), "kind": "scenario", "pulses": pulses, "pin": pin,
                                                                          "noshrink": late})

    def derive_model(self, case, raw):
        ops, exp = [], []
        for op, g in zip(case.ops, raw):
            if op.startswith("debprobe "):
                lines = [x for x in g if x.startswith(("INSTATE", "STEP", "NOTIFY"))]
                if not lines:
                    continue
                inst = lines[0].split()[1]
                # the real state before the probe: after the previous probe the machine may be mid-sequence
                prev = getattr(self, "_dummy", None)
                ops.append("debprobe %s %s %s %s" % (inst, case.meta.setdefault("_st", {}).get(op.split()[1], "0 0").split()[0],
                                                     case.meta["_st"].get(op.split()[1], "0 0").split()[1], op.split()[2]))
                exp.append(lines)
                last = [x for x in lines if x.startswith("STEP")][-1].split()
                case.meta["_st"][op.split()[1]] = "%s %s" % (last[1], last[2])
        return "\n".join(ops) + "\n", exp

    def monitor(self, case, groups, rc, err):
        if rc != 0:
            return [F.Finding("crash", "implementation aborted (rc=%s): %s" % (rc, err[-900:]))]
        fs = []
        if case.meta.get("kind") != "scenario":
            return fs
        raw = case.meta.get("raw_impl") or []
        now, down_at, events, toggles = 0, None, [], []
        pulses = []
        for op, g in zip(case.ops, raw):
            t = op.split()
            if t[0] == "adv":
                now += int(t[1])
            if t[0] == "input" and int(t[1]) == 10:
                if t[2] == "0":
                    down_at = now
                elif down_at is not None:
                    pulses.append((down_at, now))
                    down_at = None
            for x in g:
                if x.startswith("CHG InState 1 "):
                    events.append((now, int(x.split()[3])))
                if x.startswith("GPIO 2 "):
                    toggles.append(now)
        for (a, b) in pulses:
            w = b - a
            act = [e for e in events if a <= e[0] <= b + 150 and e[1] == 1]
            rel = [e for e in events if b <= e[0] <= b + 300 and e[1] == 0]
            # (an actuation that falls into a press of 100 ms or more belongs to that press, not to a spike before it)
            act_short = [e for e in act if not any(a2 <= e[0] <= b2 + 150 for (a2, b2) in pulses if b2 - a2 >= 100)]
            if w < 100 and act_short:
                fs.append(F.Finding("glitch-recognised", "a %d ms pulse was recognised as an actuation" % w))
            if w >= 140:
                if len(act) != 1:
                    fs.append(F.Finding("actuation-not-once", "a %d ms press was recognised %d times" % (w, len(act))))
                elif act[0][0] - a > 120 + 10:
                    fs.append(F.Finding("actuation-late", "a %d ms press was recognised after %d ms" % (w, act[0][0] - a)))
                if len(rel) != 1:
                    fs.append(F.Finding("release-not-once", "release after a %d ms press recognised %d times" % (w, len(rel))))
        n_act = sum(1 for e in events if e[1] == 1)
        if len(toggles) != n_act:
            fs.append(F.Finding("relay-toggle-count", "%d recognised presses but %d relay changes" % (n_act, len(toggles))))
        return fs

    def nontrivial_key(self, case, groups):
        raw = case.meta.get("raw_impl") or []
        n = sum(1 for g in raw for x in g if x.startswith(("NOTIFY", "CHG InState")))
        st = sum(1 for g in raw for x in g if x.startswith("STEP"))
        if n == 0 and st == 0:
            return None
        return (case.meta.get("kind"), min(n, 8), tuple(sorted(set(min(p // 50, 5) for p in case.meta.get("pulses", [])))), st // 10)


SPEC = C11()
