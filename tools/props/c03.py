"""C03 — mis-sized or out-of-range server messages are ignored without side effects."""
import os
import re
import struct

import common as C
import framework as F


def load_table():
    p = os.path.join(C.LEAN, "SuplaVerif", "Gen", "GetData.lean")
    rows = {}
    if not os.path.exists(p):
        return rows, []
    txt = open(p).read()
    for m in re.finditer(r"callId := (\d+), check := \.(\w+)(.*?), alloc := (\d+)", txt):
        cid, kind, args, alloc = int(m.group(1)), m.group(2), m.group(3).strip(), int(m.group(4))
        if kind == "exact":
            rows[cid] = ("exact", [int(x) for x in re.findall(r"\d+", args)], alloc)
        elif kind == "valid":
            a = args.split()
            rows[cid] = ("valid", [int(x) for x in a[:5]], alloc)
        else:
            rows[cid] = (kind, [], alloc)
    disp = [int(x) for x in re.findall(r"\d+", re.search(r"def dispatched : List Nat := \[(.*?)\]", txt).group(1))]
    return rows, disp


def load_table_guided():
    """generator guidance only: where the translator no longer recognises a size rule (or a call is missing from the
    regenerated table) the structure of the messages is taken from a snapshot of the table of the pinned tree"""
    rows, disp = load_table()
    try:
        import json
        ref = json.load(open(os.path.join(os.path.dirname(os.path.abspath(__file__)), "..", "ref", "getdata_rows.json")))
        for k, v in ref["rows"].items():
            cur = rows.get(int(k))
            if (cur is None or cur[0] not in ("exact", "valid")) and v[0] in ("exact", "valid"):
                rows[int(k)] = (v[0], v[1], v[2])
        if not disp:
            disp = ref["disp"]
    except (OSError, ValueError):
        pass
    return rows, disp


# payload builders for the dispatched calls
def set_value(sender, ch, dur, val):
    return struct.pack("<iBI", sender, ch & 255, dur & 0xffffffff) + bytes(val)[:8].ljust(8, b"\0")


def group_value(sender, gid, eol, ch, dur, val):
    return struct.pack("<iiBBI", sender, gid, eol, ch & 255, dur & 0xffffffff) + bytes(val)[:8].ljust(8, b"\0")


def chan_config(ch, func, ctype, cfg, csize=None):
    return struct.pack("<BiBH", ch & 255, func, ctype & 255, (len(cfg) if csize is None else csize) & 0xffff) + cfg


def rs_cfg(ct, ot, mud, bud, tm, vis):
    return struct.pack("<iiBBbB", ct, ot, mud, bud, tm, vis) + b"\0" * 32


def fb_cfg(ct, ot, tt, mud, bud, tm, t0, t100, tct, vis):
    return struct.pack("<iiiBBbHHBB", ct, ot, tt, mud, bud, tm, t0, t100, tct, vis) + b"\0" * 32


def calcfg(sender, ch, cmd, auth, dtype, data, dsize=None):
    return struct.pack("<iiibiI", sender, ch, cmd, auth, dtype, len(data) if dsize is None else dsize) + data


FUNC_RS = [110, 115, 230, 910, 920, 930, 940]      # shutter-like functions
FUNC_FB = [900, 950]
FUNC_RELAY = [130, 140, 300]
FUNC_AT = [700]


def slot_owner(name, idx):
    """channel that owns a snapshot slot; None = global/unowned (must not change)"""
    if name in ("Time1", "Time2", "Time3", "AutoCalOpen", "AutoCalClose", "TiltType", "Margin", "MotorUD", "RsPos",
                "RsTilt", "RsUp", "RsDown", "RsTask", "RsTrig", "RsFlags", "RsAutoCalReq", "Time1Left", "Time2Left",
                "RtCfg", "FuncSrv", "VisType"):
        return idx
    if name == "InGpio":
        return idx // 2
    return None


class C03(F.Spec):
    pid = "C03"
    lean_module = "SuplaVerif.Props.C03"
    namespace = "SuplaVerif.C03"
    driver = "drv_dev"
    variant = "cfg"
    model_args = ["getdata"]
    rule = ("per call id of the regenerated srpc_getdata table and its neighbours: lengths 0, each required size +-1, "
            "maximum; for variable-size calls consistent and inconsistent declared sizes; for dispatched calls "
            "well-sized messages with adversarial fields (channel 0..255, durations, config sizes, enum values) on "
            "boards relay1-8, rs1-4, mixed. Non-trivial: the message was accepted or rejected with a table row "
            "present; distinct = (call id, verdict, board, changed slot names).")
    assumptions = ["handlers are exercised on the implementation under ASan/UBSan with a slot-ownership monitor; "
                   "only the size validation (srpc_getdata) is modelled in Lean",
                   "board hooks empty (analysed configuration: /verif board with RETREIVE_CHANNEL_CONFIG=0xff)"]

    def __init__(self):
        self.rows, self.disp = {}, []

    def cases(self, rng, tier):
        self.rows, self.disp = load_table_guided()
        n = 250 if tier == "quick" else 4000
        # a well-formed authorised recalibrate whose 32-bit channel number is an alias (modulo 256) of a shutter's channel
        # names no channel of the device: nothing may change
        for k, alias in enumerate([256, 257, 258, 512, 65536, -256, -255, 16777216, 2 ** 31 - 256]):
            for dtype, data in ((0, b""), (1000, struct.pack("<ii", 2000, 2000))):
                yield F.Case("calcfg-alias-%d-%d" % (k, dtype),
                             ["board rs3 0", "init", "calllog 1", "rstimes 0 5000 5000 0 0", "rspos 0 5000 0", "rstimes 1 5000 5000 0 0",
                              "rspos 1 5000 0", "rstimes 2 5000 5000 0 0", "rspos 2 5000 0",
                              "msg 460 " + calcfg(3, alias, 8000, 1, dtype, data).hex(), "adv 300"],
                             {"board": "rs3", "tags": ["board:rs3", "calcfg-alias"]})
        # per-channel bits of shared settings (motor / buttons upside down): a configuration naming one shutter must not touch
        # another shutter's bit - every ordered pair of shutters, switching the bit on for the first, then on / off for the second
        for a in range(3):
            for b in range(3):
                if a == b:
                    continue
                for second in (2, 1):
                    ops = ["board rs3 0", "init", "calllog 1"]
                    for k in range(3):
                        ops += ["rstimes %d 5000 5000 0 0" % k, "rspos %d 5000 0" % k]
                    ops += ["msg 690 " + chan_config(a, 110, 0, rs_cfg(5000, 5000, 2, 2, -1, 0)).hex(), "adv 100",
                            "msg 690 " + chan_config(b, 110, 0, rs_cfg(5000, 5000, second, second, -1, 0)).hex(), "adv 100"]
                    yield F.Case("updown-bits-%d-%d-%d" % (a, b, second), ops, {"board": "rs3", "tags": ["board:rs3", "updown-bits"]})
        # the settings of a shutter named by any channel number, also beyond the shutters and inputs the device has: switching
        # "buttons upside down" / "motor upside down" on and off again touches nothing outside the tables
        for ch in (0, 1, 2, 3, 4, 5, 6, 7, 8, 15, 127, 255):
            for board in ("rs2 0", "rs4 0", "relay2 0"):
                ops = ["board " + board, "init", "calllog 1"]
                for second in (2, 1, 2):
                    ops += ["msg %d " % (690 if second == 2 else 682) + chan_config(ch, 110, 0, rs_cfg(5000, 5000, second, second, -1, 0)).hex(), "adv 100"]
                yield F.Case("updown-any-channel-%d-%s" % (ch, board.split()[0]), ops, {"board": board.split()[0], "tags": ["board:" + board.split()[0], "updown-any"]})
        for i in range(n):
            yield self.gen(rng, i)

    def gen(self, rng, i):
        rows, disp = self.rows, self.disp
        board = rng.choice(["relay1", "relay2", "relay4", "relay8", "rs1", "rs2", "rs3", "rs4", "mixed"])
        flags = rng.choice([0, 0, 0x10, 0x02, 0x04])
        ops = ["board %s %d" % (board, flags), "init", "calllog 1"]
        if board.startswith("rs") or board == "mixed":
            for k in range(4):
                if rng.random() < .5:
                    ops.append("rstimes %d %d %d %d %d" % (k, rng.choice([0, 5000, 20000]), rng.choice([0, 5000, 20000]),
                                                           rng.choice([0, 1500]), rng.choice([0, 0, 1, 2, 3])))
                    ops.append("rspos %d %d %d" % (k, rng.choice([0, 100, 5000, 10100]), rng.choice([0, 100, 5000])))
        tags = ["board:" + board]
        for _ in range(rng.randint(1, 6)):
            kind = rng.choice(["size", "size", "handler", "handler", "handler", "unknown"])
            if kind == "unknown":
                cid = rng.choice([0, 1, 5, 9, 11, 69, 71, 109, 111, 459, 461, 689, 692, 3000, 65535, 2 ** 31])
                pl = bytes(rng.getrandbits(8) for _ in range(rng.choice([0, 1, 17, 100])))
            elif kind == "size":
                cid = rng.choice(list(rows)) if rng.random() < .5 or not disp else rng.choice(disp)
                k, a, alloc = rows.get(cid, ("other", [], 0))
                if k == "exact":
                    n = rng.choice(a) + rng.choice([-1, 0, 0, 1, 2]) if rng.random() < .8 else rng.choice([0, 1, 1536])
                    pl = bytes(rng.getrandbits(8) for _ in range(max(0, min(n, 1536))))
                    if cid == 70 and len(pl) == 7:      # a refusal would end the connection (C04's subject)
                        pl = struct.pack("<iBBB", 3, rng.choice([0, 10, 120, 255]), 23, 1)
                    if cid == 30:
                        continue                        # version error stops the connection
                elif k == "valid":
                    main, item, mx, fo, fw = a
                    hdr = main - item * mx
                    cnt = rng.choice([0, 1, 2, mx, mx - 1, mx + 1, mx + 1, mx + 2, 255, 65535])
                    if hdr + cnt * item > 1536 and rng.random() < .5:
                        cnt = rng.choice([mx + 1, min(mx + 40, max(mx + 1, (1536 - hdr) // max(item, 1)))])   # beyond the maximum but inside the frame limit
                    decl = cnt if rng.random() < .6 else rng.choice([0, cnt + 1, max(cnt - 1, 0), 2 ** (8 * fw) - 1, 2 ** (8 * fw - 1)])
                    n = hdr + cnt * item + rng.choice([0, 0, 0, -1, 1])
                    n = max(0, min(n, 1536))
                    b = bytearray(rng.getrandbits(8) for _ in range(n))
                    if n >= fo + fw:
                        b[fo:fo + fw] = (decl % (1 << (8 * fw))).to_bytes(fw, "little")
                    pl = bytes(b)
                elif k == "other":
                    # a size rule the translator does not recognise: probe small and large sizes anyway
                    pl = bytes(rng.getrandbits(8) for _ in range(rng.choice([0, 1, 2, 3, 4, 8, 40, 200, 1536])))
                else:
                    pl = bytes(rng.getrandbits(8) for _ in range(rng.choice([0, 3])))
            else:
                ch = rng.choice([0, 0, 1, 1, 2, 3, 4, 5, 7, 8, 9, 15, 16, 127, 128, 200, 254, 255])
                which = rng.choice(["set", "set", "group", "cfg_rs", "cfg_fb", "cfg_relay", "cfg_at", "cfg_rand", "finished",
                                    "calcfg", "state", "timeout", "setcfgres"])
                dur = rng.choice([0, 0, 1, 500, 100000, 2 ** 31 - 1, 2 ** 31, 2 ** 32 - 1])
                val = bytes([rng.choice([0, 1, 2, 3, 4, 5, 10, 60, 110, 111, 127, 128, 255])] +
                            [rng.choice([0, 255, 50, 110, 111]) for _ in range(7)])
                if which == "set":
                    cid, pl = 110, set_value(rng.choice([0, 1, -1, 77]), ch, dur, val)
                elif which == "group":
                    # (group ids that are also channel numbers of the board: the group id is not the channel)
                    cid, pl = 115, group_value(5, rng.choice([0, 1, 2, 3, 9, 256, 257]), rng.choice([0, 1]), ch, dur, val)
                elif which in ("cfg_rs", "cfg_fb", "cfg_relay", "cfg_at", "cfg_rand"):
                    cid = rng.choice([690, 682])
                    t = lambda: rng.choice([0, 1, 500, 600000, -1, 2 ** 31 - 1, -2 ** 31])
                    e = lambda: rng.choice([0, 1, 2, 3, 255])
                    if which == "cfg_rs":
                        cfg = rs_cfg(t(), t(), e(), e(), rng.choice([-1, 0, 1, 50, 101, 102, -128, 127]), e())
                        func = rng.choice(FUNC_RS)
                    elif which == "cfg_fb":
                        cfg = fb_cfg(t(), t(), t(), e(), e(), rng.choice([-1, 0, 1, 101, 102]), 0, 180, rng.choice([0, 1, 2, 3, 4, 255]), e())
                        func = rng.choice(FUNC_FB)
                    elif which == "cfg_relay":
                        cfg = struct.pack("<i", t())
                        func = rng.choice(FUNC_RELAY)
                    elif which == "cfg_at":
                        cfg = struct.pack("<I", rng.choice([0, 1, 0x1ff, 0xffffffff]))
                        func = 700
                    else:
                        cfg = bytes(rng.getrandbits(8) for _ in range(rng.choice([0, 1, 4, 40, 55, 512])))
                        func = rng.choice(FUNC_RS + FUNC_FB + FUNC_RELAY + FUNC_AT + [0, -1, 12345])
                    if rng.random() < .15:
                        cfg = cfg[:rng.randint(0, len(cfg))]
                    pl = chan_config(ch, func, rng.choice([0, 0, 0, 1, 2, 255]), cfg)
                elif which == "finished":
                    cid, pl = 683, bytes([ch])
                elif which == "calcfg":
                    data = bytes(rng.getrandbits(8) for _ in range(rng.choice([0, 0, 1, 4, 8, 128])))
                    cid, pl = 460, calcfg(3, rng.choice([ch, ch, -1, 2 ** 31 - 1, 256 + ch, 256 + ch, 512 + ch, ch - 256, 65536 + ch]),   # aliases of ch modulo 256 name no channel
                                          rng.choice([0, 4000, 8000, 8000, 8100, 5000, 9999, 6000, 6100]),
                                          rng.choice([0, 1]), rng.choice([0, 0, 1, 2, 1000]), data)
                elif which == "state":
                    cid, pl = 500, struct.pack("<iB", 4, ch) + b"\0\0\0"
                elif which == "timeout":
                    cid, pl = 220, bytes([rng.choice([0, 5, 10, 120, 255]), 10, 240])
                else:
                    cid, pl = 691, bytes([rng.choice([0, 1, 7]), 0, ch])
                tags.append("handler:" + which)
            ops.append("msg %d %s" % (cid, pl.hex() if pl else "-"))
            if rng.random() < .3:
                ops.append("adv %d" % rng.choice([10, 100, 1500]))
        return F.Case("gen%d-%s" % (i, board), ops, {"tags": tags, "board": board})

    def _other(self, x):
        """call ids whose size rule the translator does not recognise: no model verdict to compare"""
        try:
            return self.rows.get(int(x.split()[1]), ("x",))[0] == "other"
        except (ValueError, IndexError):
            return False

    def canon_impl(self, groups):
        return [[x if not (self._other(x) and int(x.split()[1]) in self.rows) else "GETDATA %s *" % x.split()[1]
                 for x in g if x.startswith("GETDATA ")] for g in groups]

    def canon_model(self, groups):
        return [[x if not x.endswith(" ?") else "GETDATA %s *" % x.split()[1] for x in g if x.startswith("GETDATA ")] for g in groups]

    def run_full(self, case, exe):
        return C.run_lines([exe], case.text())

    def monitor(self, case, groups, rc, err):
        # `groups` are canonicalised (GETDATA only); re-run is avoided by reading the raw lines the
        # framework kept in case.meta (set by canon hook below)
        raw = case.meta.get("raw_impl")
        fs = []
        if rc != 0:
            return [F.Finding("crash", "implementation aborted (rc=%s): %s" % (rc, err[-900:]))]
        if raw is None:
            return fs
        board = case.meta.get("board", "")
        for op, g in zip(case.ops, raw):
            t = op.split()
            if t[0] != "msg":
                continue
            cid = int(t[1])
            pl = bytes.fromhex(t[2]) if t[2] != "-" else b""
            if "MSGSTART" in g:
                g = g[g.index("MSGSTART") + 1:]
            gd = [x for x in g if x.startswith("GETDATA ")]
            if len(gd) != 1:
                if not gd and any(x in ("RESTART", "BADOP") for x in g):
                    continue
                fs.append(F.Finding("dispatch-count", "message %d produced %d getdata calls" % (cid, len(gd))))
                continue
            verdict = int(gd[0].split()[2])
            row = self.rows.get(cid)
            if verdict == 1 and row and row[0] == "exact" and len(row[1]) == 1 and len(pl) != row[2]:
                # the handler receives a structure of row[2] bytes (the allocation): a payload of another length "does not match
                # what its call type requires", whatever the size test in front of the allocation says
                fs.append(F.Finding("mis-sized-accepted", "call %d is accepted with %d bytes although the structure its handler receives has %d"
                                    % (cid, len(pl), row[2])))
            effects = [x for x in g if x.startswith(("GPIO ", "SENT ", "CHG ", "RESTART", "FLASH"))]
            if verdict != 1:
                if effects:
                    fs.append(F.Finding("rejected-message-has-effect", "call %d len %d rejected (%d) but: %s" % (cid, len(pl), verdict, effects[:3])))
                continue
            # which channel does the message name?
            ch = None
            if cid == 110 and len(pl) == 17:
                ch = pl[4]
            elif cid == 115 and len(pl) == 22:
                ch = pl[9]
            elif cid in (690, 682) and len(pl) >= 8:
                ch = pl[0]
            elif cid == 683 and len(pl) == 1:
                ch = pl[0]
            elif cid == 460 and len(pl) >= 21:
                ch = struct.unpack("<i", pl[4:8])[0]
            if ch is None:
                continue
            # outputs of the board: relayN -> pins 1..N, rsN -> 1..2N, mixed -> 1..4
            npins = int(board[5:]) if board.startswith("relay") else (2 * int(board[2:]) if board.startswith("rs") else 4)
            for x in g:
                if x.startswith("RELAYHI "):
                    pin = int(x.split()[1])
                    if not (1 <= pin <= npins):
                        fs.append(F.Finding("output-outside-board", "call %d for channel %d drove pin %d, which is no output of board %s"
                                            % (cid, ch, pin, board)))
            for x in g:
                if x.startswith("CHG "):
                    _, name, idx, val = x.split()
                    if name in ("ButtonsUD", "CfgMode", "ActTimeout"):
                        continue
                    if cid == 683 and name in ("RtCfg",):
                        continue    # config-finished legitimately resolves all channels' pending state
                    own = slot_owner(name, int(idx))
                    if name in ("RelayState",):
                        continue    # relay idx -> channel mapping checked through GPIO below
                    if own is not None and own != ch:
                        fs.append(F.Finding("foreign-slot-modified",
                                            "call %d for channel %d changed %s[%s] (board %s)" % (cid, ch, name, idx, board)))
        return fs

    def nontrivial_key(self, case, groups):
        ks = []
        for op, g in zip(case.ops, groups):
            if op.startswith("msg "):
                for x in g:
                    if x.startswith("GETDATA "):
                        ks.append((x.split()[1], x.split()[2]))
        if not ks:
            return None
        return (case.meta.get("board"), tuple(sorted(set(ks)))[:6])


SPEC = C03()
