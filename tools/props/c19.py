"""C19 — behaviour is independent of the absolute value of the microsecond counter."""
import common as C
import framework as F

W = 1 << 32


def _frame_counts(lines):
    import collections
    c = collections.Counter()
    for x in lines:
        if x.startswith("SENT 0 "):
            b = bytes.fromhex(x.split()[2])       # one write may carry several frames
            k = 0
            while k + 23 <= len(b) and b[k:k + 5] == b"SUPLA":
                c[int.from_bytes(b[k + 10:k + 14], "little")] += 1
                k += 23 + int.from_bytes(b[k + 14:k + 18], "little")
        elif x.startswith("CALL value "):
            c["value reports handed to the protocol layer"] += 1     # (whether or not its queue took them: C06)
    return c


class C19(F.Spec):
    pid = "C19"
    lean_module = "SuplaVerif.Props.C19"
    namespace = "SuplaVerif.C19"
    driver = "drv_uptime"
    model_args = ["uptime"]
    rule = ("uptime: boot values {0, near the wrap, random}, advances 1 us .. 30 min split into random steps, polls "
            "at random instants (the 10 s refresh timer runs inside). Non-trivial: at least one wrap happened between "
            "polls; distinct = (number of wraps, boot class). Monitor: usec/msec/sec never decrease, and advance by "
            "the elapsed time minus one microsecond per wrap.")
    assumptions = ["polls are at most 2^32 us apart (guaranteed by the 10 s refresh timer, modelled in both drivers)"]

    def cases(self, rng, tier):
        n = 200 if tier == "quick" else 3000
        for i in range(n):
            boot = rng.choice([0, W - 1, W - 1000, W - 5000000, W // 2, rng.getrandbits(32)])
            ops = ["boot %d" % boot, "init"]
            for _ in range(rng.randint(2, 25)):
                ops.append("advus %d" % rng.choice([1, 999, 1000, 123456, 5000000, 9999999, 10000000, 10000001,
                                                     600000000, 1800000000, rng.randint(1, 4000000000)]))
                if rng.random() < .7:
                    ops.append("poll")
            ops.append("poll")
            yield F.Case("gen%d" % i, ops, {"tags": ["boot:%s" % ("zero" if boot == 0 else "nearwrap" if boot > W - 10**7 else "other")],
                                            "boot": boot})

    def extra_findings(self, tier, rng):
        """Part 2: device scenarios replayed with different boot values of the counter; the
        timestamped traces (true time) must be identical."""
        from props.c08 import gen_rs_scenario
        exe = C.build_driver("drv_dev", "cfg")
        n = 40 if tier == "quick" else 400
        out, nt = [], 0
        for i in range(n):
            board, _, ops = gen_rs_scenario(rng, "quick", boot=777)
            total = sum(int(o.split()[1]) for o in ops if o.startswith("adv ")) * 1000
            # place the wrap before / inside / after the scenario (never exactly on a stamp value 0)
            boots = [777, (W - rng.randint(1, max(total, 2))) | 1, (W - total - 5000001) | 1]
            traces = []
            k = 0
            while k < len(boots):
                b = boots[k]
                k += 1
                o2 = ["boot %d" % b] + ops[1:]
                rc, lines, err = C.run_lines([exe], "\n".join(o2) + "\n")
                if rc != 0:
                    out.append((F.Finding("crash", "rc=%s %s" % (rc, err[-600:])), o2))
                    traces = None
                    break
                keep = [x for x in lines if x.startswith(("GPIO ", "TRIGFIRE ", "SETRELAY "))]
                traces.append(keep)
                if k == 1:
                    # ... and shortly behind an output being energised: the stamps taken there (start / stop times) are then compared
                    # with readings from behind the wrap within the start and stop delays
                    ons = [int(x.split()[3]) for x in keep if x.startswith("GPIO ") and x.split()[2] == "1" and x.split()[3].isdigit()]
                    for t_on in (rng.sample(ons, min(3, len(ons))) if ons else []):
                        boots.append((W - (t_on + rng.choice([1000, 50000, 100000, 300000, 450000, 900000]))) % W | 1)
            if not traces:
                continue
            if any(x.startswith("GPIO ") for x in traces[0]):
                nt += 1
            for b, tr in zip(boots[1:], traces[1:]):
                if tr != traces[0]:
                    k = next((j for j in range(min(len(tr), len(traces[0]))) if tr[j] != traces[0][j]), min(len(tr), len(traces[0])))
                    out.append((F.Finding("boot-dependent-behaviour",
                                          "trace with boot=%d differs from boot=777 at event %d: %s vs %s" % (
                                              b, k, tr[k] if k < len(tr) else None, traces[0][k] if k < len(traces[0]) else None)),
                                ["boot %d" % b] + ops[1:]))
                    break
        from props.c03 import set_value as _sv
        # short actuations with the wrap inside the start / stop delays: a short press on a shutter button (the motor keeps running
        # for its minimum time), a stop and a reversal shortly after a start - for every instant an output was energised the wrap
        # is placed 20, 100, 200 and 400 ms behind it
        if not out:
            for i in range(4 if tier == "quick" else 30):
                pin = rng.choice([9, 10])
                ops = ["board rs1", "motor 0 100 3000 3000", "init", "rstimes 0 5000 5000 0 0", "rspos 0 5000 0", "rslog 1", "adv 1000"]
                for _ in range(rng.randint(1, 3)):
                    if rng.random() < .6:
                        # (the board's shutter buttons act on release: a click starts the motor, the next click stops it)
                        ops += ["input %d 0" % pin, "adv 150", "input %d 1" % pin, "adv %d" % rng.choice([30, 100, 200]),
                                "input %d 0" % pin, "adv %d" % rng.choice([120, 150, 200]), "input %d 1" % pin]
                    else:
                        ops += ["msg 110 " + _sv(1, 0, 0, bytes([rng.choice([1, 2])] + [0] * 7)).hex(), "adv %d" % rng.choice([100, 250, 400]),
                                "msg 110 " + _sv(1, 0, 0, bytes([rng.choice([0, 1, 2])] + [0] * 7)).hex()]
                    ops += ["adv 800", "adv 1500"]
                    pin = 19 - pin
                ref = None
                boots = [777]
                k = 0
                while k < len(boots) and not out:
                    o2 = ["boot %d" % boots[k]] + ops
                    k += 1
                    rc, lines, err = C.run_lines([exe], "\n".join(o2) + "\n")
                    if rc != 0:
                        out.append((F.Finding("crash", "rc=%s %s" % (rc, err[-600:])), o2))
                        break
                    keep = [x for x in lines if x.startswith(("GPIO ", "TRIGFIRE ", "SETRELAY "))]
                    if ref is None:
                        ref = keep
                        nt += 1 if keep else 0
                        for x in keep:
                            if x.startswith("GPIO ") and x.split()[2] == "1":
                                boots += [(W - (int(x.split()[3]) + d)) % W | 1 for d in (20000, 100000, 200000, 400000)]
                    elif keep != ref:
                        j = next((j for j in range(min(len(keep), len(ref))) if keep[j] != ref[j]), min(len(keep), len(ref)))
                        out.append((F.Finding("boot-dependent-behaviour", "short actuation: trace with boot=%d differs from boot=777 at event %d: %s vs %s"
                                              % (boots[k - 1], j, keep[j] if j < len(keep) else None, ref[j] if j < len(ref) else None)), o2))
        # frames sent: a shutter that moves for several seconds with the wrap in the middle of the move reports as often as with
        # the wrap far away.  (Frame contents are not compared: the phase of the 200 ms report window against the boot value is
        # set by the first report - the stamp starts as 0 - so positions are sampled at instants up to 200 ms apart.)
        import collections

        def frame_counts(lines):
            return _frame_counts(lines)

        def _unused(lines):
            c = collections.Counter()
            for x in lines:
                if x.startswith("SENT 0 "):
                    b = bytes.fromhex(x.split()[2])       # one write may carry several frames
                    k = 0
                    while k + 23 <= len(b) and b[k:k + 5] == b"SUPLA":
                        c[int.from_bytes(b[k + 10:k + 14], "little")] += 1
                        k += 23 + int.from_bytes(b[k + 14:k + 18], "little")
                elif x.startswith("CALL value "):
                    c["value reports handed to the protocol layer"] += 1     # (whether or not its queue took them: C06)
            return c
        for i in range(6 if tier == "quick" else 40):
            full = rng.choice([1000, 1500, 2000, 3000])      # fast travel: the reported percentage changes on every 10 ms callback
            move = full - rng.choice([100, 200])
            pre = rng.choice([1500, 2000, 2700])
            dur = ((full // 100) << 16) | (full // 100)      # shutter commands carry the travel times
            ops = ["board rs1", "motor 0 0 %d %d" % (full, full), "init", "calllog 1", "rstimes 0 %d %d 0 0" % (full, full), "rspos 0 100 0",
                   "adv %d" % pre, "msg 110 " + _sv(1, 0, dur, bytes([1] + [0] * 7)).hex()] + ["adv 100"] * (move // 100) + \
                  ["msg 110 " + _sv(1, 0, dur, bytes([0] * 8)).hex(), "adv 1500"]
            at = rng.randint(pre + 300, pre + move - 100)          # the wrap falls inside the move
            cs = []
            for b in (777, W - at * 1000, W - at * 1000 - 70000, W - at * 1000 - 140000):
                o2 = ["boot %d" % b] + ops
                rc, lines, err = C.run_lines([exe], "\n".join(o2) + "\n")
                if rc != 0:
                    out.append((F.Finding("crash", "rc=%s %s" % (rc, err[-600:])), o2))
                    break
                cs.append((b, frame_counts(lines), o2))
            for b, c, o2 in cs[1:]:
                for k in set(c) | set(cs[0][1]):
                    if abs(c[k] - cs[0][1][k]) > 5:
                        out.append((F.Finding("boot-dependent-frame-count", "a shutter moving across the counter wrap (boot=%d): %d x "
                                              "%s, %d with boot=777" % (b, c[k], ("frames of call %d" % k) if isinstance(k, int) else k, cs[0][1][k])), o2))
                        break
        # action-trigger gestures (click bursts, holds, re-configured triggers) with the wrap inside the gesture
        from props.c11 import SPEC as C11
        for i in range(n):
            case = C11.gen_at(rng, i)
            ops = case.ops
            total = sum(int(o.split()[1]) for o in ops if o.startswith("advus ")) + 1000 * sum(int(o.split()[1]) for o in ops if o.startswith("adv "))
            boots = [777] + [W - rng.randint(1000000, max(total, 1000001)) for _ in range(3)]
            traces = []
            for b in boots:
                o2 = ["boot %d" % b] + ops
                rc, lines, err = C.run_lines([exe], "\n".join(o2) + "\n")
                if rc != 0:
                    out.append((F.Finding("crash", "rc=%s %s" % (rc, err[-600:])), o2))
                    traces = None
                    break
                traces.append([x for x in lines if x.startswith(("GPIO ", "CALL at ", "INCHG ", "CHG CfgMode", "RESTART"))])
            if not traces:
                continue
            for b, tr in zip(boots[1:], traces[1:]):
                if tr != traces[0]:
                    k = next((j for j in range(min(len(tr), len(traces[0]))) if tr[j] != traces[0][j]), min(len(tr), len(traces[0])))
                    out.append((F.Finding("boot-dependent-behaviour",
                                          "action-trigger gesture: trace with boot=%d differs from boot=777 at event %d: %s vs %s" % (
                                              b, k, tr[k] if k < len(tr) else None, traces[0][k] if k < len(traces[0]) else None)),
                                ["boot %d" % b] + ops))
                    break
            if out:
                break
        # button gestures (configuration button holds and toggles, plain buttons) with the wrap inside the gesture
        from props.c12 import SPEC as C12
        ev = 3 * n
        for i in range(n):
            case = C12.gen_buttons(rng, i)
            ops = case.ops
            total = sum(int(o.split()[1]) for o in ops if o.startswith("adv ")) * 1000
            boots = [777, W - rng.randint(1000000, max(total, 1000001)), W - rng.randint(1000000, max(total, 1000001)) - rng.randint(0, 999)]
            traces = []
            for b in boots:
                o2 = ["boot %d" % b] + ops
                rc, lines, err = C.run_lines([exe], "\n".join(o2) + "\n")
                ev += 1
                if rc != 0:
                    out.append((F.Finding("crash", "rc=%s %s" % (rc, err[-600:])), o2))
                    traces = None
                    break
                traces.append([x for x in lines if x.startswith(("GPIO ", "TRIGFIRE ", "SETRELAY ", "CHG CfgMode", "FACTORYHOOK", "RESTART", "CHG RelayState"))])
            if not traces:
                continue
            if traces[0]:
                nt += 1
            for b, tr in zip(boots[1:], traces[1:]):
                if tr != traces[0]:
                    k = next((j for j in range(min(len(tr), len(traces[0]))) if tr[j] != traces[0][j]), min(len(tr), len(traces[0])))
                    out.append((F.Finding("boot-dependent-behaviour",
                                          "button gesture: trace with boot=%d differs from boot=777 at event %d: %s vs %s" % (
                                              b, k, tr[k] if k < len(tr) else None, traces[0][k] if k < len(traces[0]) else None)),
                                ["boot %d" % b] + ops))
                    break
            if out:
                break
        return ev, nt, out

    def extra_replay(self, ops):
        """a replayed scenario is compared with the same scenario at boot value 777"""
        exe = C.build_driver("drv_dev", "cfg")
        tr = []
        cnt = []
        for o2 in (ops, ["boot 777"] + [o for o in ops if not o.startswith("boot ")]):
            rc, lines, err = C.run_lines([exe], "\n".join(o2) + "\n")
            if rc != 0:
                return [F.Finding("crash", "rc=%s %s" % (rc, err[-600:]))]
            cnt.append(_frame_counts(lines))
            tr.append([x for x in lines if x.startswith(("GPIO ", "TRIGFIRE ", "SETRELAY ", "CHG CfgMode", "FACTORYHOOK", "RESTART", "CHG RelayState",
                                                         "CALL at ", "INCHG "))])
        if tr[0] != tr[1]:
            k = next((j for j in range(min(len(tr[0]), len(tr[1]))) if tr[0][j] != tr[1][j]), min(len(tr[0]), len(tr[1])))
            return [F.Finding("boot-dependent-behaviour", "trace differs from the one at boot=777 at event %d: %s vs %s" % (
                k, tr[0][k] if k < len(tr[0]) else None, tr[1][k] if k < len(tr[1]) else None))]
        if "calllog 1" in ops:
            for k in set(cnt[0]) | set(cnt[1]):
                if abs(cnt[0][k] - cnt[1][k]) > 5:
                    return [F.Finding("boot-dependent-frame-count", "%d x %s, %d with boot=777" % (cnt[0][k], k, cnt[1][k]))]
        return []

    def monitor(self, case, groups, rc, err):
        if rc != 0:
            return [F.Finding("crash", "rc=%s %s" % (rc, err[-500:]))]
        fs, now, prev, boot = [], 0, None, case.meta.get("boot")
        for op, g in zip(case.ops, groups):
            t = op.split()
            if t[0] == "boot":
                boot = int(t[1]) % W
            if t[0] == "advus":
                now += int(t[1])
            for x in g:
                if x.startswith("UPTIME "):
                    us, ms, s = [int(v) for v in x.split()[1:]]
                    if prev is not None:
                        pus, pms, ps, pnow = prev
                        if us < pus or ms < pms or s < ps:
                            fs.append(F.Finding("uptime-decreased", "uptime went from %s to %s" % ((pus, pms, ps), (us, ms, s))))
                        wraps = ((boot or 0) + now) // W - ((boot or 0) + pnow) // W
                        if us - pus != (now - pnow) - wraps:
                            fs.append(F.Finding("uptime-drift", "elapsed %d us with %d wraps but uptime advanced %d" % (now - pnow, wraps, us - pus)))
                    prev = (us, ms, s, now)
        return fs

    def nontrivial_key(self, case, groups):
        boot = case.meta.get("boot") or 0
        now = sum(int(o.split()[1]) for o in case.ops if o.startswith("advus"))
        wraps = (boot + now) // W
        return (min(wraps, 3), case.meta["tags"][0]) if wraps else None


SPEC = C19()
