"""C19 — behaviour is independent of the absolute value of the microsecond counter."""
import common as C
import framework as F

W = 1 << 32


class C19(F.Spec):
    pid = "C19"
    lean_module = "SuplaVerif.Props.C19"
    namespace = "SuplaVerif.C19"
    driver = "drv_uptime"
    model_args = ["uptime"]
    rule = ("uptime: boot values {0, near the wrap, random}, advances 1 us .. 30 min split into random steps, polls "
            "at random instants (the 10 s refresh timer runs inside). Non-trivial: at least one wrap happened between "
            "polls; distinct = (number of wraps, boot class). Monitor: usec/msec/sec never decrease, and advance by "
            "the elapsed time minus one microsecond per wrap.")
    assumptions = ["polls are at most 2^32 us apart (guaranteed by the 10 s refresh timer, modelled in both drivers)"]

    def cases(self, rng, tier):
        n = 200 if tier == "quick" else 3000
        for i in range(n):
            boot = rng.choice([0, W - 1, W - 1000, W - 5000000, W // 2, rng.getrandbits(32)])
            ops = ["boot %d" % boot, "init"]
            for _ in range(rng.randint(2, 25)):
                ops.append("advus %d" % rng.choice([1, 999, 1000, 123456, 5000000, 9999999, 10000000, 10000001,
                                                     600000000, 1800000000, rng.randint(1, 4000000000)]))
                if rng.random() < .7:
                    ops.append("poll")
            ops.append("poll")
            yield F.Case("gen%d" % i, ops, {"tags": ["boot:%s" % ("zero" if boot == 0 else "nearwrap" if boot > W - 10**7 else "other")],
                                            "boot": boot})

    def extra_findings(self, tier, rng):
        """Part 2: device scenarios replayed with different boot values of the counter; the
        timestamped traces (true time) must be identical."""
        from props.c08 import gen_rs_scenario
        exe = C.build_driver("drv_dev", "cfg")
        n = 40 if tier == "quick" else 400
        out, nt = [], 0
        for i in range(n):
            board, _, ops = gen_rs_scenario(rng, "quick", boot=777)
            total = sum(int(o.split()[1]) for o in ops if o.startswith("adv ")) * 1000
            # place the wrap before / inside / after the scenario (never exactly on a stamp value 0)
            boots = [777, (W - rng.randint(1, max(total, 2))) | 1, (W - total - 5000001) | 1]
            traces = []
            for b in boots:
                o2 = ["boot %d" % b] + ops[1:]
                rc, lines, err = C.run_lines([exe], "\n".join(o2) + "\n")
                if rc != 0:
                    out.append((F.Finding("crash", "rc=%s %s" % (rc, err[-600:])), o2))
                    traces = None
                    break
                keep = [x for x in lines if x.startswith(("GPIO ", "TRIGFIRE ", "SETRELAY "))]
                traces.append(keep)
            if not traces:
                continue
            if any(x.startswith("GPIO ") for x in traces[0]):
                nt += 1
            for b, tr in zip(boots[1:], traces[1:]):
                if tr != traces[0]:
                    k = next((j for j in range(min(len(tr), len(traces[0]))) if tr[j] != traces[0][j]), min(len(tr), len(traces[0])))
                    out.append((F.Finding("boot-dependent-behaviour",
                                          "trace with boot=%d differs from boot=777 at event %d: %s vs %s" % (
                                              b, k, tr[k] if k < len(tr) else None, traces[0][k] if k < len(traces[0]) else None)),
                                ["boot %d" % b] + ops[1:]))
                    break
        # button gestures (configuration button holds and toggles, plain buttons) with the wrap inside the gesture
        from props.c12 import SPEC as C12
        ev = 3 * n
        for i in range(n):
            case = C12.gen_buttons(rng, i)
            ops = case.ops
            total = sum(int(o.split()[1]) for o in ops if o.startswith("adv ")) * 1000
            boots = [777, W - rng.randint(1000000, max(total, 1000001)), W - rng.randint(1000000, max(total, 1000001)) - rng.randint(0, 999)]
            traces = []
            for b in boots:
                o2 = ["boot %d" % b] + ops
                rc, lines, err = C.run_lines([exe], "\n".join(o2) + "\n")
                ev += 1
                if rc != 0:
                    out.append((F.Finding("crash", "rc=%s %s" % (rc, err[-600:])), o2))
                    traces = None
                    break
                traces.append([x for x in lines if x.startswith(("GPIO ", "TRIGFIRE ", "SETRELAY ", "CHG CfgMode", "FACTORYHOOK", "RESTART", "CHG RelayState"))])
            if not traces:
                continue
            if traces[0]:
                nt += 1
            for b, tr in zip(boots[1:], traces[1:]):
                if tr != traces[0]:
                    k = next((j for j in range(min(len(tr), len(traces[0]))) if tr[j] != traces[0][j]), min(len(tr), len(traces[0])))
                    out.append((F.Finding("boot-dependent-behaviour",
                                          "button gesture: trace with boot=%d differs from boot=777 at event %d: %s vs %s" % (
                                              b, k, tr[k] if k < len(tr) else None, traces[0][k] if k < len(traces[0]) else None)),
                                ["boot %d" % b] + ops))
                    break
            if out:
                break
        return ev, nt, out

    def extra_replay(self, ops):
        """a replayed scenario is compared with the same scenario at boot value 777"""
        exe = C.build_driver("drv_dev", "cfg")
        tr = []
        for o2 in (ops, ["boot 777"] + [o for o in ops if not o.startswith("boot ")]):
            rc, lines, err = C.run_lines([exe], "\n".join(o2) + "\n")
            if rc != 0:
                return [F.Finding("crash", "rc=%s %s" % (rc, err[-600:]))]
            tr.append([x for x in lines if x.startswith(("GPIO ", "TRIGFIRE ", "SETRELAY ", "CHG CfgMode", "FACTORYHOOK", "RESTART", "CHG RelayState"))])
        if tr[0] != tr[1]:
            k = next((j for j in range(min(len(tr[0]), len(tr[1]))) if tr[0][j] != tr[1][j]), min(len(tr[0]), len(tr[1])))
            return [F.Finding("boot-dependent-behaviour", "trace differs from the one at boot=777 at event %d: %s vs %s" % (
                k, tr[0][k] if k < len(tr[0]) else None, tr[1][k] if k < len(tr[1]) else None))]
        return []

    def monitor(self, case, groups, rc, err):
        if rc != 0:
            return [F.Finding("crash", "rc=%s %s" % (rc, err[-500:]))]
        fs, now, prev, boot = [], 0, None, case.meta.get("boot")
        for op, g in zip(case.ops, groups):
            t = op.split()
            if t[0] == "boot":
                boot = int(t[1]) % W
            if t[0] == "advus":
                now += int(t[1])
            for x in g:
                if x.startswith("UPTIME "):
                    us, ms, s = [int(v) for v in x.split()[1:]]
                    if prev is not None:
                        pus, pms, ps, pnow = prev
                        if us < pus or ms < pms or s < ps:
                            fs.append(F.Finding("uptime-decreased", "uptime went from %s to %s" % ((pus, pms, ps), (us, ms, s))))
                        wraps = ((boot or 0) + now) // W - ((boot or 0) + pnow) // W
                        if us - pus != (now - pnow) - wraps:
                            fs.append(F.Finding("uptime-drift", "elapsed %d us with %d wraps but uptime advanced %d" % (now - pnow, wraps, us - pus)))
                    prev = (us, ms, s, now)
        return fs

    def nontrivial_key(self, case, groups):
        boot = case.meta.get("boot") or 0
        now = sum(int(o.split()[1]) for o in case.ops if o.startswith("advus"))
        wraps = (boot + now) // W
        return (min(wraps, 3), case.meta["tags"][0]) if wraps else None


SPEC = C19()
