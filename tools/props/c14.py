"""C14 — config form: safe parsing, bounded validated fields, untouched when absent."""
import framework as F

TEXT = {"sid": "ssid", "wpw": "wpwd", "svr": "server", "eml": "email"}


def rb(rng, n):
    return bytes(rng.getrandbits(8) for _ in range(n))


def enc(rng, b, p=0.3):
    out = b""
    for c in b:
        ch = bytes([c])
        if ch.isalnum() and rng.random() > p:
            out += ch
        elif c == 32 and rng.random() < 0.5:
            out += b"+"
        else:
            out += b"%%%02X" % c if rng.random() < 0.5 else b"%%%02x" % c
    return out


def url_decode(v):
    """reference reading of a form value (RFC 3986 / HTML forms): %XY with hex digits of either case, '+' is a space;
    None when the value has an incomplete or non-hex escape (no expectation then)"""
    out = bytearray()
    i = 0
    while i < len(v):
        c = v[i:i + 1]
        if c == b"%":
            h = v[i + 1:i + 3]
            if len(h) != 2 or any(x not in b"0123456789abcdefABCDEF" for x in h):
                return None
            out.append(int(h, 16))
            i += 3
        elif c == b"+":
            out.append(32)
            i += 1
        else:
            out += c
            i += 1
    return bytes(out)


class C14(F.Spec):
    pid = "C14"
    lean_module = "SuplaVerif.Props.C14"
    namespace = "SuplaVerif.C14"
    driver = "drv_form"
    model_args = ["form"]
    rule = ("POST / requests with random subsets and orders of the text fields (sid, wpw, svr, eml: lengths 0..3x the field, "
            "URL-escaped at random positions) and numeric fields (prt, qos, tm0..: inside, at and beyond the range limits, "
            "signs, junk), plus GET, other paths, fewer than four fields, a mutated/random-bytes stream and requests cut into "
            "segments at field boundaries; previous configuration with random field contents, stack pre-filled with a chosen "
            "byte. Each text/numeric field of single-segment requests is compared with the Lean model; monitor: terminated "
            "fields, absent => unchanged, empty password => kept, nothing saved unless POST / with >= 4 fields, writes only "
            "inside the record (ASan), same result for a request split at field boundaries. Non-trivial: the request reached "
            "the field parser; distinct = (shape, field set, saved).")
    assumptions = ["SUPLA protocol selection (pro=0) for the compared fields; MQTT-only fields are exercised for memory safety only",
                   "segmentations inside a field value are recorded as a known finding (the parser keeps pointers into the "
                   "previous callback's stack copy)"]

    def driver_build(self):
        import common as C
        return C.build_driver(self.driver, self.variant, extra_flags=["-fwrapv"])   # int wraps on the target

    def offsets(self):
        if not hasattr(self, "_off"):
            import extract
            body = "\n".join('P("%s", offsetof(SuplaEspCfg, %s)); P("%s.n", sizeof(((SuplaEspCfg*)0)->%s));' % (k, f, k, f) for k, f in [
                ("ssid", "WIFI_SSID"), ("wpwd", "WIFI_PWD"), ("server", "Server"), ("email", "Email"), ("pwd", "LocationPwd"),
                ("port", "Port"), ("qos", "MqttQoS"), ("tm", "AdditionalTimeMargin"), ("flags", "Flags")])
            self._off = {k: int(v) for k, v in extract.run_probe("c14_off", body, includes_c=["supla_esp.h", "supla_esp_cfg.h"]).items()}
        return self._off

    def fld(self, rec, name, n=None):
        o = self.offsets()
        a = o[name]
        n = n if n is not None else o[name + ".n"]
        return rec[a:a + n]

    def cstr(self, b):
        return b.split(b"\0")[0]

    def cases(self, rng, tier):
        self.offsets()
        yield F.Case("witness-no-pwd-field", ["stack a5", "conn", "show",
                     "seg " + (b"POST / HTTP/1.1\r\n\r\nsid=net&svr=s.example&eml=a%40b.c&pro=0&led=1").hex(), "show"],
                     {"shape": "witness", "tags": ["shape:witness"]})
        yield F.Case("witness-pro-at-end", ["conn", "seg " + (b"POST / HTTP/1.1\r\n\r\nsid=net&led=1&pro=").hex(), "show"],
                     {"shape": "witness", "tags": ["shape:witness"]})
        yield F.Case("witness-port-wrap", ["conn", "show", "seg " + (b"POST / HTTP/1.1\r\n\r\nsid=net&svr=s.example&led=1&pro=0&prt=4294967297").hex(), "show"],
                     {"shape": "form", "fields": [("sid", b"net".hex()), ("svr", b"s.example".hex()), ("led", b"1".hex()), ("pro", b"0".hex()),
                                                  ("prt", b"4294967297".hex())],
                      "req": (b"POST / HTTP/1.1\r\n\r\nsid=net&svr=s.example&led=1&pro=0&prt=4294967297").hex(), "body_off": 19,
                      "tags": ["shape:witness"]})
        for i in range(150 if tier == "quick" else 1500):
            yield self.gen(rng, i)
        for i in range(40 if tier == "quick" else 400):
            yield self.gen_keep(rng, i)
        for i in range(80 if tier == "quick" else 800):
            yield self.gen_names(rng, i)
        for i in range(8 if tier == "quick" else 40):
            yield self.gen_empty_combo(rng, i)

    def gen(self, rng, i):
        o = self.offsets()
        ops = []
        # previous configuration: random printable strings in the text fields
        prev = {}
        for k in ("ssid", "wpwd", "server", "email", "pwd"):
            n = rng.randint(0, o[k + ".n"] - 1)
            v = bytes(rng.choice(b"abcdefghijklmnopqrstuvwxyz0123456789.@-_") for _ in range(n))
            if k == "pwd":
                v = v[:o[k + ".n"] - 2]
            ops.append("set %d %s" % (o[k], (v + b"\0" * (o[k + ".n"] - len(v))).hex()))
        ops.append("stack %02x" % rng.choice([0, 0xa5, 0x41, 0xff]))
        shape = rng.choice(["form"] * 6 + ["get", "path", "few", "mutated", "random", "split"])
        fields = []
        names = ["sid", "wpw", "svr", "eml"]
        rng.shuffle(names)
        for nme in names[:rng.randint(1, 4)]:
            size = o[TEXT[nme] + ".n"]
            ln = rng.choice([0, 1, size - 2, size - 1, size, size + 1, 2 * size, rng.randint(0, 3 * size)])
            raw = bytes(rng.choice(b"abcdefghijklmnopqrstuvwxyz0123456789 .@-_!/:") for _ in range(ln))
            fields.append((nme.encode(), enc(rng, raw)))
        if rng.random() < .4:
            # the account password next to the others: submitted with a value or empty (an empty Wi-Fi password next to a new account
            # password is the combination where each has to be looked at on its own)
            fields.append((b"pwd", rng.choice([b"", b"", bytes(rng.choice(b"ABCDEFGHJKLMNPQRSTUVWXYZ23456789") for _ in range(rng.randint(1, 20)))])))
        nums = [(b"prt", rng.choice([b"0", b"1", b"65535", b"65536", b"8883", b"-1", b"70000", b"4294967297", b"12ab", b""])),
                (b"qos", rng.choice([b"0", b"1", b"2", b"3", b"9", b"x", b""])),
                (b"tm0", rng.choice([b"-1", b"0", b"100", b"101", b"-2", b"255", b"127", b"128", b"50", b"-", b"1000"])),
                (b"led", rng.choice([b"0", b"1"])), (b"upd", b"0"), (b"pro", b"0")]
        rng.shuffle(nums)
        fields += nums[:rng.randint(2, 6)]
        # the margins of the other shutters: independent values, so that a check on the wrong index shows
        for k in range(1, o["tm.n"]):
            if rng.random() < 0.5:
                fields.append((b"tm%d" % k, rng.choice([b"-1", b"0", b"100", b"101", b"-2", b"120", b"127", b"5", b"50", b"99", b"-100"])))
        if shape == "few":
            fields = fields[:rng.randint(1, 3)]
        rng.shuffle(fields)
        body = b"&".join(k + b"=" + v for k, v in fields)
        line = {"get": b"GET / HTTP/1.1", "path": b"POST /x HTTP/1.1"}.get(shape, b"POST / HTTP/1.1")
        req = line + b"\r\nHost: 192.168.4.1\r\nContent-Type: application/x-www-form-urlencoded\r\nContent-Length: %d\r\n\r\n" % len(body) + body
        if shape == "mutated":
            req = bytearray(req)
            for _ in range(rng.randint(1, 6)):
                k = rng.randrange(len(req))
                r = rng.random()
                if r < 0.4:
                    req[k] = rng.choice(b"%&=+\0\xff")
                elif r < 0.7:
                    del req[k:k + rng.randint(1, 8)]
                else:
                    req[k:k] = rb(rng, rng.randint(1, 5))
            req = bytes(req)
        elif shape == "random":
            req = b"POST / HTTP/1.1\r\n\r\n" + rb(rng, rng.randint(1, 600))
        ops += ["formlog 1", "conn", "show"]
        segs = [req]
        if shape == "split" and len(fields) >= 2:
            # cut after a '&' (field boundary) inside the body
            amps = [k + 1 for k in range(len(req) - len(body), len(req)) if req[k:k + 1] == b"&"]
            cut = rng.choice(amps)
            segs = [req[:cut], req[cut:]]
        for s in segs:
            ops.append("seg " + s.hex())
        ops.append("show")
        meta = {"shape": shape, "fields": [(k.decode(), v.hex()) for k, v in fields], "req": req.hex(), "body_off": len(req) - len(body),
                "tags": ["shape:" + shape] + ["f:" + k.decode() for k, _ in fields]}
        return F.Case("gen%d-%s" % (i, shape), ops, meta)

    def gen_empty_combo(self, rng, i):
        """a well-formed form in which one of the two passwords is submitted empty and the other with a new value (and the request
        ends in an escaped character): each empty password keeps its previous value on its own"""
        o = self.offsets()
        ops = []
        for k, v in (("ssid", b"oldnet"), ("wpwd", b"oldwifipass"), ("server", b"old.example"), ("email", b"old@example.org"), ("pwd", b"oldaccountpw")):
            ops.append("set %d %s" % (o[k], (v + b"\0" * (o[k + ".n"] - len(v))).hex()))
        ops.append("stack %02x" % rng.choice([0, 0xa5]))
        wifi_empty = i % 2 == 0
        tail = [b"a%40b.pl", b"q%40r.s%21", b"x%2Fy%40z.or%67"][i % 3]        # (two of three end in an escape)
        fields = [(b"sid", b"net%d" % i), (b"svr", b"s.example"), (b"wpw", b"" if wifi_empty else b"newwifi%d" % i),
                  (b"pwd", b"newaccount%d" % i if wifi_empty else b""), (b"pro", b"0"), (b"led", b"1")]
        rng.shuffle(fields)
        fields.append((b"eml", tail))          # the last field of the body ends in an escape
        body = b"&".join(k + b"=" + v for k, v in fields)
        req = b"POST / HTTP/1.1\r\nHost: 192.168.4.1\r\n\r\n" + body
        ops += ["formlog 1", "conn", "show", "seg " + req.hex(), "show"]
        meta = {"shape": "form", "fields": [(k.decode(), v.hex()) for k, v in fields], "req": req.hex(), "body_off": len(req) - len(body),
                "tags": ["shape:form", "empty-combo"] + ["f:" + k.decode() for k, _ in fields]}
        return F.Case("combo%d" % i, ops, meta)

    def table_names(self):
        if not hasattr(self, "_names"):
            import re
            import common as C
            import os
            txt = open(os.path.join(C.LEAN, "SuplaVerif", "Gen", "FormTable.lean")).read()
            self._names = [bytes(int(x) for x in m.split(",")) for m in re.findall(r"name := \[([0-9, ]+)\]", txt)]
        return self._names

    def gen_names(self, rng, i):
        """requests over the whole regenerated name table (both protocol selections, the MQTT flag preset or not, unknown
        names, names inside values, empty and over-long values): compared with the scanner model event by event"""
        o = self.offsets()
        tbl = self.table_names()
        ops = []
        if rng.random() < .5:
            ops.append("set %d %s" % (o["flags"], "01000000"))
        ops.append("stack %02x" % rng.choice([0, 0xa5]))
        fields = []
        for _ in range(rng.randint(0, 9)):
            nm = rng.choice(tbl + [b"zzz", b"pro", b"pro", b"si", b"sidx"]) if rng.random() < .9 else rb(rng, 3)
            kind = rng.choice(["num", "num", "text", "long", "empty", "esc", "nested"])
            if kind == "num":
                v = rng.choice([b"0", b"1", b"2", b"-1", b"77", b"100", b"65535", b"123456789012345"])
            elif kind == "text":
                v = bytes(rng.choice(b"abcxyz019.-_") for _ in range(rng.randint(1, 20)))
            elif kind == "long":
                v = bytes(rng.choice(b"abcdefgh") for _ in range(rng.choice([11, 12, 13, 31, 32, 33, 63, 64, 65, 99, 100, 101, 255, 256, 300])))
            elif kind == "esc":
                v = enc(rng, bytes(rng.choice(b"ab c@/:&=%+") for _ in range(rng.randint(1, 12))), 0.5) + rng.choice([b"", b"%", b"%4", b"%zz"])
            elif kind == "nested":
                v = b"xx" + rng.choice(tbl) + b"=" + b"9" * rng.randint(0, 3)       # a name position inside a value
            else:
                v = b""
            fields.append((nm, v))
        body = b"&".join(k + b"=" + v for k, v in fields) + rng.choice([b"", b"", b"&", b"\r\n"])
        line = rng.choice([b"POST / HTTP/1.1"] * 6 + [b"GET / HTTP/1.1", b"POST /x HTTP/1.1", b"POST / HTTP/1.1\r\nCookie: sid=evil; led=1"])
        req = line + b"\r\nHost: 192.168.4.1\r\n\r\n" + body
        ops += ["formlog 1", "conn", "show", "seg " + req.hex(), "show"]
        return F.Case("names%d" % i, ops, {"shape": "names", "tags": ["shape:names", "nf:%d" % min(len(fields), 5)]})

    def gen_keep(self, rng, i):
        """a long password is stored (its overflow part behind the e-mail), then a form without a password changes the e-mail:
        the stored password has to be kept, moved behind the new e-mail's terminator"""
        o = self.offsets()
        L, E = o["pwd.n"], o["email.n"]
        plen = rng.choice([L - 1, L, L + 1, L + 10, L + 100, L + 200, E - 10])
        pwd = bytes(rng.choice(b"ABCDEFGHJKLMNPQRSTUVWXYZ23456789") for _ in range(plen))
        m1 = bytes(rng.choice(b"abcdefghij") for _ in range(rng.choice([1, 5, 20, 60, E - plen + L - 3 if E - plen + L - 3 > 0 else 5])))[:E - 1]
        m2 = bytes(rng.choice(b"klmnopqrst") for _ in range(rng.choice([1, 5, 20, 60, 100, 200, E - 2, E - 1, E, E + 5])))
        p1 = b"POST / HTTP/1.1\r\n\r\nsid=net&svr=s.example&eml=" + m1 + b"&pwd=" + pwd + b"&pro=0&led=1"
        second = rng.choice([b"", b"&pwd="])
        p2 = b"POST / HTTP/1.1\r\n\r\nsid=net&svr=s.example&eml=" + m2 + second + b"&pro=0&led=0"
        ops = ["stack %02x" % rng.choice([0, 0xa5]), "conn", "seg " + p1.hex(), "show", "conn", "seg " + p2.hex(), "show"]
        return F.Case("keep%d" % i, ops, {"shape": "keep", "m2": m2.hex(), "tags": ["shape:keep", "pwlen:%d" % (0 if plen < L else 1 if plen == L else 2)]})

    def derive_keep(self, case, raw):
        rs = self.recs(case, raw)
        if len(rs) != 2:
            return "", []
        o = self.offsets()
        L, E = o["pwd.n"], o["email.n"]
        before, after = rs
        saved2 = any(x.startswith("FLASH write 245760") and x.split()[-1] == "0" for x in raw[-2])
        if not saved2:
            return "", []
        old_pwd, old_mail = self.fld(before, "pwd"), self.fld(before, "email")
        m2 = bytes.fromhex(case.meta["m2"])[:E - 1]
        new_mail = m2 + b"\0" + old_mail[len(m2) + 1:]          # the parser writes the value and its terminator over a copy of the old field
        ops = ["keeppwd %d %d %s %s %s" % (L, E, old_pwd.hex(), old_mail.hex(), new_mail.hex())]
        exp = [["KEEP %s %s" % (self.fld(after, "pwd").hex(), self.fld(after, "email").hex())]]
        return "\n".join(ops) + "\n", exp

    def recs(self, case, raw):
        out = []
        for op, g in zip(case.ops, raw):
            for x in g:
                if x.startswith("CFGREC "):
                    out.append(bytes.fromhex(x.split()[1]))
        return out

    def derive_model(self, case, raw):
        me = case.meta
        ops, exp = [], []
        if me.get("shape") == "keep":
            return self.derive_keep(case, raw)
        if me.get("shape") in ("form", "get", "path", "few", "mutated", "random", "names"):
            # the whole scanner against its Lean model (Model/FormScan with the regenerated table): every field handed to
            # its assignment (hook ce6c071), in order, with the running count, and whether the count reaches the threshold
            rs0 = self.recs(case, raw)
            segs = [(op, g) for op, g in zip(case.ops, raw) if op.startswith("seg ")]
            if rs0 and len(segs) == 1:
                o = self.offsets()
                mq = int.from_bytes(self.fld(rs0[0], "flags"), "little") & 1
                ops.append("scan %d %s" % (mq, segs[0][0].split()[1]))
                g = segs[0][1]
                acted = any(x.startswith("FLASH write 245760") or x == "RESTART" for x in g)
                exp.append([x for x in g if x.startswith("FVAR ")] + ["COUNT %d" % (1 if acted else 0)])
        if me.get("shape") != "form":
            return ("\n".join(ops) + "\n", exp) if ops else ("", [])
        rs = self.recs(case, raw)
        saved = any(x.startswith("FLASH write 245760") for g in raw[-2:] for x in g)
        if len(rs) < 2 or not saved:
            return ("\n".join(ops) + "\n", exp) if ops else ("", [])
        before, after = rs[0], rs[-1]
        req = bytes.fromhex(me["req"])
        o = self.offsets()
        pos = me["body_off"]
        seen = set()
        for k, vh in me["fields"]:
            v = bytes.fromhex(vh)
            start = pos + len(k) + 1
            rest = req[start:]
            pos = start + len(v) + 1
            if k in seen:
                continue
            seen.add(k)
            rh = rest.hex() if rest else "-"
            if k in TEXT and rest:
                if k == "wpw":
                    continue   # empty value keeps the previous one: checked by the monitor
                ops.append("field %d %s" % (o[TEXT[k] + ".n"], rh))
                val = self.cstr(self.fld(after, TEXT[k]))
                exp.append(["VAL " + (val.hex() if val else "-")])
            elif k == "prt" and rest and len(v) <= 9:   # longer digit strings wrap in C (known finding), the model is unbounded
                ops.append("port %d %s" % (int.from_bytes(self.fld(before, "port"), "little", signed=True), rh))
                exp.append(["NUM %d" % int.from_bytes(self.fld(after, "port"), "little", signed=True)])
            elif k == "qos" and rest:
                ops.append("qos %d %s" % (int.from_bytes(self.fld(before, "qos", 1), "little", signed=False), rh))
                exp.append(["NUM %d" % int.from_bytes(self.fld(after, "qos", 1), "little", signed=False)])
            elif k in ("tm0", "tm1", "tm2", "tm3") and rest and int(k[2]) < o["tm.n"]:
                ops.append("margin %s" % rh)
                exp.append(["NUM %d" % int.from_bytes(self.fld(after, "tm")[int(k[2]):int(k[2]) + 1], "little", signed=True)])
        return "\n".join(ops) + "\n", exp

    def canon_model(self, groups):
        out = []
        for g in groups:
            out.append([("COUNT " + x.split()[2]) if x.startswith("COUNT ") else x for x in g])
        return out

    def monitor(self, case, groups, rc, err):
        if rc != 0:
            return [F.Finding("crash", "implementation aborted (rc=%s): %s" % (rc, err[-1200:]))]
        raw = case.meta.get("raw_impl") or []
        me = case.meta
        fs = []
        rs = self.recs(case, raw)
        if len(rs) < 2:
            return fs
        before, after = rs[0], rs[-1]
        saved = any(x.startswith("FLASH write 245760") for g in raw for x in g if True) and before != after or \
            any(x.startswith("FLASH write 245760") for op, g in zip(case.ops, raw) if op.startswith("seg") for x in g)
        o = self.offsets()
        for k in ("ssid", "wpwd", "server", "email"):   # a full-length Password continues behind the e-mail by design
            if b"\0" not in self.fld(after, k):
                fs.append(F.Finding("field-not-terminated", "%s has no terminator inside its field" % k))
        shape = me.get("shape")
        names = [k for k, _ in me.get("fields", [])]
        if shape == "keep" and len(rs) == 2 and any(x.startswith("FLASH write 245760") and x.split()[-1] == "0" for x in raw[-2]):
            # the password as the MQTT client reads it: the field, continued behind the user name's terminator when full
            L, E = o["pwd.n"], o["email.n"]

            def full(rec):
                p = self.fld(rec, "pwd")
                if b"\0" in p:
                    return self.cstr(p)
                mail = self.fld(rec, "email")
                if b"\0" not in mail[:E - 1]:
                    return p
                rest = mail[mail.index(b"\0") + 1:]
                return p + self.cstr(rest) if b"\0" in rest else p
            m2 = bytes.fromhex(me["m2"])[:E - 1]
            pb = full(before)
            # both forms carry sid=net: a password of any length (at, below and above the size of its field) leaves it alone
            for which, rec in (("first", before), ("second", after)):
                if self.cstr(self.fld(rec, "ssid")) != b"net":
                    fs.append(F.Finding("neighbouring-field-changed", "after the %s form (sid=net and a password of %d characters) the network "
                                        "name reads %r" % (which, len(pb), self.cstr(self.fld(rec, "ssid"))[:20])))
                    break
            # the overflow part of a long password is a text setting of its own, stored behind the terminator of the address: what
            # stands there after the form was saved is terminated inside the field (readers look for the terminator there)
            mail_a = self.fld(after, "email")
            if b"\0" in mail_a[:E - 2] and b"\0" not in self.fld(after, "pwd"):
                rest = mail_a[mail_a.index(b"\0") + 1:]
                if b"\0" not in rest:
                    fs.append(F.Finding("password-overflow-part-not-terminated", "after a form without a password (new e-mail of %d characters, "
                                        "stored password of %d) the %d bytes behind the address's terminator hold no terminator: the "
                                        "overflow part of the password runs to the end of the field" % (len(m2), len(pb), len(rest))))
            if len(m2) + 1 + max(0, len(pb) - L) + 1 <= E and full(after) != pb:
                fs.append(F.Finding("stored-password-not-kept", "a form without a password changed the stored %d-character password "
                                    "(new e-mail of %d characters: there was room)" % (len(pb), len(m2))))
            return fs
        if shape in ("get", "path", "few") and (saved or before != after):
            fs.append(F.Finding("saved-without-valid-post", "%s request with %d fields changed/saved the settings" % (shape, len(names))))
        if shape in ("form", "split", "witness"):
            present = set(names) if shape != "witness" else {"sid", "svr", "eml", "pro", "led"}
            if case.name == "witness-pro-at-end":
                return fs
            for k, f in TEXT.items():
                if k not in present and self.fld(after, f) != self.fld(before, f):
                    fs.append(F.Finding("absent-field-changed", "%s not in the request but %s changed" % (k, f)))
            if "pwd" not in present and self.cstr(self.fld(after, "pwd")) != self.cstr(self.fld(before, "pwd")):
                fs.append(F.Finding("absent-password-changed", "no pwd field in the request but the password changed from %r to %r" % (
                    self.cstr(self.fld(before, "pwd"))[:20], self.cstr(self.fld(after, "pwd"))[:20])))
            for k, vh in me.get("fields", []):
                if k == "wpw" and vh == "" and self.fld(after, "wpwd") != self.fld(before, "wpwd"):
                    fs.append(F.Finding("empty-password-not-kept", "wpw submitted empty but WIFI_PWD changed"))
            if shape == "form" and saved:
                fl = me.get("fields", [])
                for j, (k, vh) in enumerate(fl):
                    # a text value that fits its field, followed by another field: stored = URL-decoded value
                    if k in TEXT and names.count(k) == 1 and (j < len(fl) - 1 or "empty-combo" in me.get("tags", [])):
                        d = url_decode(bytes.fromhex(vh))
                        if d is None or b"\0" in d or len(d) >= o[TEXT[k] + ".n"] - 1 or (k == "wpw" and d == b""):
                            continue
                        got = self.cstr(self.fld(after, TEXT[k]))
                        if got != d:
                            fs.append(F.Finding("url-decoding", "%s=%r is stored as %r, decoded it reads %r" % (
                                k, bytes.fromhex(vh)[:60], got[:60], d[:60])))
            pt = int.from_bytes(self.fld(after, "port"), "little", signed=True)
            for k, vh in me.get("fields", []):
                v = bytes.fromhex(vh)
                if k == "prt" and v.isdigit() and not (1 <= int(v) <= 65535) and shape == "form" and \
                        pt != int.from_bytes(self.fld(before, "port"), "little", signed=True) and names.count("prt") == 1:
                    fs.append(F.Finding("port-wrapped-accepted", "prt=%s is outside 1..65535 but the port became %d" % (v.decode(), pt)))
            if "prt" in present and not (1 <= pt <= 65535) and pt != int.from_bytes(self.fld(before, "port"), "little", signed=True):
                fs.append(F.Finding("port-out-of-range", "port %d" % pt))
            if "qos" in o and "qos" in present:
                q = int.from_bytes(self.fld(after, "qos", 1), "little", signed=False)
                if not (0 <= q <= 2) and q != int.from_bytes(self.fld(before, "qos", 1), "little", signed=False):
                    fs.append(F.Finding("qos-out-of-range", "QoS %d was stored (the request carries %s)"
                                        % (q, [bytes.fromhex(vh)[:8] for k, vh in me.get("fields", []) if k == "qos"])))
            for idx in range(o["tm.n"]):
                tm = int.from_bytes(self.fld(after, "tm")[idx:idx + 1], "little", signed=True)
                if "tm%d" % idx in present and not (-1 <= tm <= 100):
                    fs.append(F.Finding("margin-out-of-range", "time margin %d of shutter %d" % (tm, idx)))
                if "tm%d" % idx not in present and shape != "witness" and \
                        self.fld(after, "tm")[idx:idx + 1] != self.fld(before, "tm")[idx:idx + 1]:
                    fs.append(F.Finding("absent-field-changed", "tm%d not in the request but the margin of shutter %d changed" % (idx, idx)))
        return fs

    def flags_judge(self, exe, ops):
        import common as C
        o = self.offsets()
        rc, lines, err = C.run_lines([exe], "\n".join(ops) + "\n")
        if rc != 0:
            return [F.Finding("crash", "form handler aborted (rc=%s): %s" % (rc, err[-600:]))]
        recs = [bytes.fromhex(x.split()[1]) for x in lines if x.startswith("CFGREC ")]
        if len(recs) != 2:
            return []
        before, after = (int.from_bytes(r[o["flags"]:o["flags"] + 4], "little") for r in recs)
        req = bytes.fromhex(next(x for x in ops if x.startswith("seg ")).split()[1])
        body = req[req.index(b"\r\n\r\n") + 4:]
        fields = dict(kv.split(b"=", 1) for kv in body.split(b"&") if b"=" in kv)
        want = before
        if b"pro" in fields:
            want = (want | 1) if fields[b"pro"][:1] == b"1" else (want & ~1)
        if b"ret" in fields:
            want = (want | 2) if fields[b"ret"][:1] == b"1" else (want & ~2)
        if b"tls" in fields:
            want = (want | 4) if fields[b"tls"][:1] == b"1" else (want & ~4)
        if b"mau" in fields:
            want = (want & ~8) if fields[b"mau"][:1] == b"1" else (want | 8)
        # the same reading from the Lean model (Model/FormFlags, theorem c14_flag_bits): it has to agree with the one above
        tok = lambda k: "-" if k not in fields else ("1" if fields[k][:1] == b"1" else "0")
        mrc, mlines, merr = C.run_lines([C.svdrv(), "form"], "flags %d %s %s %s %s\n" % (before & 0x1f, tok(b"pro"), tok(b"ret"), tok(b"tls"), tok(b"mau")))
        mv = [int(x.split()[1]) for x in mlines if x.startswith("FLAGS ")]
        if not mv or (mv[0] & 0x1f) != (want & 0x1f):
            return [F.Finding("flag-model-disagrees", "the Lean model gives %s for flag bits %#x and fields %s, the monitor's reading %#x"
                              % (mv[:1], before & 0x1f, sorted(k.decode() for k in fields), want & 0x1f))]
        if (after & 0x1f) != (want & 0x1f):
            return [F.Finding("absent-field-changed", "flag bits %#x before, request fields %s: %#x expected (a bit whose field is absent keeps "
                              "its value), %#x stored" % (before & 0x1f, sorted(k.decode() for k in fields), want & 0x1f, after & 0x1f))]
        return []

    def flags_family(self, tier, rng):
        import common as C
        try:
            exe = C.build_driver("drv_form", "mqtt", extra_units=list(C.MQTT_UNITS), extra_flags=["-fwrapv", "-DMQTT_SUPPORT_ENABLED"])
        except C.BuildError as e:
            return [(F.Finding("crash", "the MQTT build of the form driver does not build: " + str(e)[-400:]), [])], 0
        o = self.offsets()
        n = 0
        for i in range(24 if tier == "quick" else 200):
            prev = rng.choice([0x07, 0x0f, 0x1f, 0x06, 0x09, 0x00, 0x01, rng.randrange(32)])
            fl = [b"sid=net", b"wpw=secret", b"mvr=broker.example", b"usr=joe", b"pfx=home"]
            for name in (b"pro", b"ret", b"tls", b"mau"):
                if rng.random() < (.8 if name == b"pro" else .35):
                    fl.append(name + b"=" + rng.choice([b"0", b"1", b"1"]))
            rng.shuffle(fl)
            req = b"POST / HTTP/1.1\r\n\r\n" + b"&".join(fl)
            ops = ["set %d %s" % (o["flags"], prev.to_bytes(4, "little").hex()), "conn", "show", "seg " + req.hex(), "show"]
            n += 1
            f = self.flags_judge(exe, ops)
            if f:
                return [(f[0], ops)], n
        return [], n

    def extra_findings(self, tier, rng):
        """segmentation at field boundaries gives the same record as the unsplit request"""
        import common as C
        fs = []
        ev = 0
        # MQTT build: the flag bits (MQTT on, no-retain, TLS, no-auth, locked) belong to the fields pro / ret / tls / mau (locked to
        # none): a bit whose field is not in the request keeps its value, a bit whose field is there gets the submitted one
        f0, n0 = self.flags_family(tier, rng)
        ev += n0
        if f0:
            return ev, 0, f0
        exe = self.driver_build()
        n = 30 if tier == "quick" else 300
        for i in range(n):
            c = self.gen(rng, 100000 + i)
            while c.meta["shape"] != "split":
                c = self.gen(rng, rng.randrange(1 << 30))
            segs = [o for o in c.ops if o.startswith("seg ")]
            if len(segs) != 2:
                continue
            whole = [o for o in c.ops if not o.startswith("seg ")]
            k = whole.index("show", whole.index("conn")) + 1
            one = whole[:k] + ["seg " + c.meta["req"]] + whole[k:]
            outs = []
            for ops in (c.ops, one):
                rc, out, err = C.run_lines([exe], "\n".join(ops) + "\n")
                rec = [l for l in out if l.startswith("CFGREC ")]
                outs.append(rec[-1] if rec else None)
            ev += 1
            if outs[0] != outs[1]:
                fs.append((F.Finding("segmentation-changes-result", "a request cut after '&' gives a different record than the "
                                     "same request in one segment"), c.ops))
                break
        # the cut that every browser/stack produces: the head in one segment, the body in the next
        for i in range(n):
            c = self.gen(rng, 200000 + i)
            while c.meta["shape"] != "form":
                c = self.gen(rng, rng.randrange(1 << 30))
            req = bytes.fromhex(c.meta["req"])
            cut = c.meta["body_off"]
            base = [o for o in c.ops if not o.startswith("seg ")]
            k = base.index("show", base.index("conn")) + 1
            outs = []
            variants = (base[:k] + ["seg " + req[:cut].hex(), "seg " + req[cut:].hex()] + base[k:], base[:k] + ["seg " + req.hex()] + base[k:])
            for ops in variants:
                rc, out, err = C.run_lines([exe], "\n".join(ops) + "\n")
                rec = [l for l in out if l.startswith("CFGREC ")]
                outs.append(rec[-1] if rec else None)
            ev += 1
            if outs[0] != outs[1]:
                fs.append((F.Finding("head-body-split-changes-result", "a request whose head and body arrive in two segments gives a "
                                     "different record than the same request in one segment"), variants[0]))
                break
        return ev, ev, fs

    def extra_replay(self, ops):
        if ops and ops[0].startswith("set %d " % self.offsets()["flags"]) and len(ops) == 5:
            import common as C
            return self.flags_judge(C.build_driver("drv_form", "mqtt", extra_units=list(C.MQTT_UNITS), extra_flags=["-fwrapv", "-DMQTT_SUPPORT_ENABLED"]), ops)
        return self._extra_replay_rest(ops)

    def _extra_replay_rest(self, ops):
        """a replayed request in two segments is compared with the same bytes in one segment (head/body split only: cuts inside
        the body are the recorded finding segmentation-changes-result)"""
        import common as C
        idx = [k for k, o in enumerate(ops) if o.startswith("seg ")]
        if len(idx) != 2 or idx[1] != idx[0] + 1:
            return []
        a, b = bytes.fromhex(ops[idx[0]].split()[1]), bytes.fromhex(ops[idx[1]].split()[1])
        if not a.endswith(b"\r\n\r\n"):
            return []
        one = ops[:idx[0]] + ["seg " + (a + b).hex()] + ops[idx[1] + 1:]
        exe = self.driver_build()
        outs = []
        for o in (ops, one):
            rc, out, err = C.run_lines([exe], "\n".join(o) + "\n")
            rec = [l for l in out if l.startswith("CFGREC ")]
            outs.append(rec[-1] if rec else None)
        if outs[0] != outs[1]:
            return [F.Finding("head-body-split-changes-result", "a request whose head and body arrive in two segments gives a different "
                              "record than the same request in one segment")]
        return []

    def nontrivial_key(self, case, groups):
        raw = case.meta.get("raw_impl") or []
        saved = any(x.startswith("FLASH write 245760") for op, g in zip(case.ops, raw) if op.startswith("seg") for x in g)
        return (case.meta.get("shape"), tuple(sorted(k for k, _ in case.meta.get("fields", []))), saved)


SPEC = C14()
