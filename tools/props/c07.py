"""C07 — countdown and staircase timers fire once, on time, and survive a reboot."""
import framework as F
from props.c03 import set_value


class C07(F.Spec):
    pid = "C07"
    lean_module = "SuplaVerif.Props.C07"
    namespace = "SuplaVerif.C07"
    driver = "drv_dev"
    variant = "cfg"
    model_args = ["countdown"]
    rule = ("(a) the real callback supla_esp_countdown_timer_cb on chosen item tables (1-8 items, remaining 1 ms..hours, "
            "last stamps) at chosen uptimes incl. exact expiry +-1 ms: remaining times, finish events and the new timer "
            "period compared with the Lean model; (b) relay boards in simulated time: timed set-value commands (1 ms..60 s, "
            "on-for and off-for) on up to 8 channels with overlaps, newer commands and time advances; monitor: the "
            "switch-back edge comes d..d+100 ms after the command, once, never after a newer command, published "
            "remaining time never increases. Non-trivial: a timer finished; distinct = (channels, durations class).")
    assumptions = ["timer callbacks run at their due time (jitter only from other callbacks running to completion)",
                   "commands on other channels are at least 100 ms apart (faster alternating streams can starve the shared "
                   "timer: DESIGN.md F6, not generated)", "restore after reboot is not exercised (not covered)"]

    def cases(self, rng, tier):
        for i in range(60 if tier == "quick" else 600):
            yield self.gen_probe(rng, i)
        for i in range(60 if tier == "quick" else 600):
            yield self.gen_scenario(rng, i)

    def gen_probe(self, rng, i):
        ops = ["board relay8", "init"]
        mops = ["init"]
        base = rng.choice([1000, 50000, 10 ** 7, 4294967295 // 1000 * 3])
        for idx in range(rng.randint(1, 8)):
            left = rng.choice([1, 49, 50, 120, 499, 500, 501, 999, 5000, 9999, 10000, 10001, 3600000, 0])
            o = "cdset %d %d %d %d" % (idx, rng.choice([idx, idx, 255]), left, base - rng.choice([0, 10, 400]))
            ops.append(o)
            mops.append(o)
        now = base
        for _ in range(rng.randint(2, 12)):
            now += rng.choice([0, 1, 49, 50, 51, 100, 119, 120, 121, 500, 1000, 4999, 5000, 5001])
            ops.append("cdcb %d" % now)
        return F.Case("probe%d" % i, ops, {"tags": ["kind:probe"], "kind": "probe"})

    def gen_scenario(self, rng, i):
        nrel = rng.choice([1, 2, 4, 8])
        ops = ["board relay%d" % nrel, "init", "adv 200"]
        cmds = []
        now = 200
        for _ in range(rng.randint(1, 6)):
            ch = rng.randrange(nrel)
            v = rng.choice([1, 1, 0])
            d = rng.choice([0, 1, 30, 49, 50, 51, 120, 500, 999, 1000, 2500, 10000, 12345, 60000])
            ops.append("msg 110 " + set_value(9, ch, d, bytes([v] + [0] * 7)).hex())
            cmds.append((now, ch, v, d))
            step = rng.choice([100, 150, 300, 700, 1500, 3000, 11000])
            ops.append("adv %d" % step)
            now += step
        ops.append("adv 62000")
        return F.Case("scen%d" % i, ops, {"tags": ["kind:scenario", "relays:%d" % nrel], "kind": "scenario", "cmds": cmds})

    def derive_model(self, case, raw):
        ops, exp = ["init"], [[]]
        for op, g in zip(case.ops, raw):
            if op.startswith("cdset "):
                ops.append(op)
                exp.append([])
            elif op.startswith("cdcb "):
                ops.append(op)
                exp.append([x for x in g if x.startswith(("FINISH ", "ITEM ", "DELAY "))])
        return "\n".join(ops) + "\n", exp

    def monitor(self, case, groups, rc, err):
        if rc != 0:
            return [F.Finding("crash", "implementation aborted (rc=%s): %s" % (rc, err[-900:]))]
        fs = []
        raw = case.meta.get("raw_impl") or []
        if case.meta.get("kind") != "scenario":
            return fs
        # reconstruct command times from the ops, edges from the GPIO lines (relay gpio = 1 + channel)
        now, cmds = 0, []
        edges = {}
        left = {}
        for op, g in zip(case.ops, raw):
            t = op.split()
            if t[0] == "adv":
                now += int(t[1])
            elif t[0] == "msg" and t[1] == "110":
                for x in g:
                    if x.startswith("NOW "):
                        now = int(x.split()[1]) // 1000      # true time: earlier ops advanced it by their os_delay_us
                pl = bytes.fromhex(t[2])
                ch, d, v = pl[4], int.from_bytes(pl[5:9], "little"), pl[9]
                cmds.append((now, ch, 1 if v else 0, d))
                left.pop(ch, None)
            for x in g:
                if x.startswith("GPIO "):
                    _, pin, lvl, tm = x.split()
                    edges.setdefault(int(pin) - 1, []).append((int(tm), int(lvl)))
                elif x.startswith("CHG Time2Left "):
                    _, _, idx, val = x.split()
                    idx, val = int(idx), int(val)
                    if idx in left and val > left[idx]:
                        fs.append(F.Finding("remaining-time-increased", "channel %d: remaining time went from %d to %d ms with no new command" % (idx, left[idx], val)))
                    left[idx] = val
        end = now
        for k, (t0, ch, v, d) in enumerate(cmds):
            if d == 0:
                continue
            newer = [c for c in cmds[k + 1:] if c[1] == ch]
            t_next = newer[0][0] if newer else None
            back = [tm for tm, lvl in edges.get(ch, []) if lvl == 1 - v and tm > t0 * 1000 + 5]
            if t_next is not None and t_next <= t0 + d + 150:
                # cancelled before (or too close to) expiry: edges cannot be attributed unambiguously
                continue
            if t0 + d + 200 > end:
                continue
            mine = [tm for tm in back if (t_next is None or tm < t_next * 1000)]
            if not mine:
                fs.append(F.Finding("timer-did-not-fire", "channel %d: switched to %d for %d ms at %d ms but never switched back" % (ch, v, d, t0)))
                continue
            dt = (mine[0] - t0 * 1000) / 1000.0
            if dt < d - 0.5:
                fs.append(F.Finding("timer-early", "channel %d: %d ms timer fired after %.1f ms" % (ch, d, dt)))
            if dt > d + 100 + 25:     # + the two relay_hi writes of the command itself (2 x 10 ms)
                fs.append(F.Finding("timer-late", "channel %d: %d ms timer fired after %.1f ms" % (ch, d, dt)))
            if len(mine) > 1 and all(lvl == 1 - v for tm, lvl in edges.get(ch, []) if tm in mine[:2]):
                fs.append(F.Finding("timer-fired-twice", "channel %d: two switch-back edges" % ch))
        return fs

    def nontrivial_key(self, case, groups):
        raw = case.meta.get("raw_impl") or []
        fin = sum(1 for g in raw for x in g if x.startswith("FINISH "))
        edges = sum(1 for g in raw for x in g if x.startswith("GPIO "))
        if fin == 0 and edges == 0:
            return None
        return (case.meta.get("kind"), min(fin, 9), min(edges, 12), case.meta.get("tags", ["", ""])[1] if len(case.meta.get("tags", [])) > 1 else "")


SPEC = C07()
