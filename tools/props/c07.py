"""C07 — countdown and staircase timers fire once, on time, and survive a reboot."""
import struct

import framework as F
from props.c03 import set_value, chan_config, group_value


class C07(F.Spec):
    pid = "C07"
    lean_module = "SuplaVerif.Props.C07"
    namespace = "SuplaVerif.C07"
    driver = "drv_dev"
    variant = "cfg"
    model_args = ["countdown"]
    rule = ("(a) the real callback supla_esp_countdown_timer_cb on chosen item tables (1-8 items, remaining 1 ms..hours, "
            "last stamps) at chosen uptimes incl. exact expiry +-1 ms: remaining times, finish events and the new timer "
            "period compared with the Lean model; (b) relay boards in simulated time: timed set-value commands (1 ms..60 s, "
            "on-for and off-for) on up to 8 channels with overlaps, newer commands and time advances; monitor: the "
            "switch-back edge comes d..d+100 ms after the command, once, never after a newer command, published "
            "remaining time never increases. Non-trivial: a timer finished; distinct = (channels, durations class).")
    assumptions = ["timer callbacks run at their due time (jitter only from other callbacks running to completion)",
                   "commands on other channels are at least 100 ms apart (faster alternating streams can starve the shared "
                   "timer: DESIGN.md F6, not generated)", "a reboot is a fresh process image of the driver started on the flash content the firmware had written (power cut: no save at the moment of the cut)"]

    def cases(self, rng, tier):
        for i in range(60 if tier == "quick" else 600):
            yield self.gen_probe(rng, i)
        for i in range(30 if tier == "quick" else 300):
            yield self.gen_setdur(rng, i)
        for i in range(60 if tier == "quick" else 600):
            yield self.gen_scenario(rng, i)
        for i in range(40 if tier == "quick" else 400):
            yield self.gen_reboot(rng, i)
        for i in range(8 if tier == "quick" else 60):
            yield self.gen_cancel(rng, i)
        # timers pending on every channel at once (as many as there are relays, up to the eight the board can have): each of them
        # switches back on time
        for i in range(4 if tier == "quick" else 24):
            nrel = [4, 8, 4, 3][i % 4]
            ops = ["board relay%d" % nrel, "init", "adv 200"]
            cmds, now = [], 200
            order = list(range(nrel))
            rng.shuffle(order)
            for j, ch in enumerate(order):
                d = 1000 if j == len(order) - 1 else rng.choice([20000, 30000, 45000])
                ops.append("msg 110 " + set_value(9, ch, d, bytes([1] + [0] * 7)).hex())
                cmds.append((now, ch, 1, d))
                self.wait(ops, 100)
                now += 100
            self.wait(ops, 50000)
            yield F.Case("alltimers%d" % i, ops, {"tags": ["kind:scenario", "relays:%d" % nrel, "all-channels"], "kind": "scenario", "cmds": cmds})

    def gen_probe(self, rng, i):
        ops = ["board relay8", "init"]
        mops = ["init"]
        base = rng.choice([1000, 50000, 10 ** 7, 4294967295 // 1000 * 3])
        chans = list(range(8))
        rng.shuffle(chans)
        if rng.random() < .5:
            chans = list(range(8))
        for idx in range(rng.randint(1, 8)):
            left = rng.choice([1, 49, 50, 120, 499, 500, 501, 999, 5000, 9999, 10000, 10001, 3600000, 0])
            # (channel numbers are unique per item, as supla_esp_countdown_timer_countdown keeps them; mostly not the slot index)
            o = "cdset %d %d %d %d" % (idx, rng.choice([idx, chans[idx], chans[idx], 255]), left, base - rng.choice([0, 10, 400]))
            ops.append(o)
            mops.append(o)
        now = base
        for _ in range(rng.randint(2, 12)):
            now += rng.choice([0, 1, 49, 50, 51, 100, 119, 120, 121, 500, 1000, 4999, 5000, 5001])
            ops.append("cdcb %d" % now)
        return F.Case("probe%d" % i, ops, {"tags": ["kind:probe"], "kind": "probe"})

    def gen_setdur(self, rng, i):
        """the decision of supla_esp_gpio_relay_set_duration_timer on the real function: staircase time configured or not,
        countdown capability or not, value, requested duration, published remaining time (equal to the request = restore)"""
        nrel = 4
        cflags = [rng.choice([0, 0x01000000]) for _ in range(nrel)]
        t2 = [rng.choice([0, 0, 700, 5000]) for _ in range(nrel)]
        ops = ["board relay%d" % nrel] + ["relflags %d 0 %d" % (k, cflags[k]) for k in range(nrel)] + ["init"]
        ops += ["staircase %d %d 0" % (k, t2[k]) for k in range(nrel) if t2[k]]
        mo = []
        for _ in range(20):
            ch = rng.randrange(nrel)
            v = rng.choice([0, 1, 1])
            d = rng.choice([0, 0, 1, 300, 700, 5000, 60000])
            left = rng.choice([0, d, d, 250, 5000])
            ops.append("setdur %d %d %d %d" % (ch, v, d, left))
            mo.append("setdur %d %d %d %d %d" % (t2[ch], v, d, left, 1 if cflags[ch] else 0))
        return F.Case("setdur%d" % i, ops, {"tags": ["kind:setdur"], "kind": "setdur", "mops": mo})

    def gen_scenario(self, rng, i):
        nrel = rng.choice([1, 2, 4, 8])
        ops = ["board relay%d" % nrel, "init"]
        # staircase channels: every switch-on runs the configured time whatever duration the command carries
        stair_ms = {}
        for k in range(nrel):
            if rng.random() < .25:
                stair_ms[k] = rng.choice([300, 1000, 2500, 12000])
                ops.append("staircase %d %d 0" % (k, stair_ms[k]))
        ops.append("adv 200")
        cmds = []
        now = 200
        for _ in range(rng.randint(1, 6)):
            ch = rng.randrange(nrel)
            v = rng.choice([1, 1, 0])
            d = rng.choice([0, 1, 30, 49, 50, 51, 120, 500, 999, 1000, 2500, 10000, 12345, 60000])
            if rng.random() < .25:
                ops.append("msg 115 " + group_value(9, rng.choice([1, 7, 300]), 1, ch, d, bytes([v] + [0] * 7)).hex())
            else:
                ops.append("msg 110 " + set_value(9, ch, d, bytes([v] + [0] * 7)).hex())
            cmds.append((now, ch, v, d))
            step = rng.choice([100, 150, 300, 700, 1500, 3000, 11000])
            self.wait(ops, step)
            now += step
            if rng.random() < .3:
                # the server repeats the channel configuration with the time the device already has: nothing may change
                c2 = rng.randrange(nrel)
                if stair_ms.get(c2):
                    ops.append("msg 690 " + chan_config(c2, 300, 0, struct.pack("<I", stair_ms[c2])).hex())
                else:
                    ops.append("msg 690 " + chan_config(c2, rng.choice([130, 140]), 0, bytes(8)).hex())
        self.wait(ops, 62000)
        return F.Case("scen%d" % i, ops, {"tags": ["kind:scenario", "relays:%d" % nrel], "kind": "scenario", "cmds": cmds})

    def gen_cancel(self, rng, i):
        """timers on several channels, some of them already expired (their slots free again) when a running one is cancelled by a
        command without a duration: the cancelled switch-back never comes"""
        nrel = rng.choice([2, 4, 8])
        ops = ["board relay%d" % nrel, "init", "adv 200"]
        chans = list(range(nrel))
        rng.shuffle(chans)
        short, long_ = chans[0], chans[1]
        if i % 2:
            short, long_ = min(short, long_), max(short, long_)
        else:
            short, long_ = max(short, long_), min(short, long_)
        cmds, now = [], 200
        first = [(short, rng.choice([300, 1000])), (long_, rng.choice([5000, 8000]))]
        if i % 4 >= 2:
            first.reverse()
        for ch, d in first:
            ops.append("msg 110 " + set_value(9, ch, d, bytes([1] + [0] * 7)).hex())
            cmds.append((now, ch, 1, d))
            self.wait(ops, 100)
            now += 100
        self.wait(ops, 1800)          # the short timer has fired, its slot is free
        now += 1800
        v = rng.choice([1, 1, 0])
        ops.append("msg 110 " + set_value(9, long_, 0, bytes([v] + [0] * 7)).hex())
        cmds.append((now, long_, v, 0))
        self.wait(ops, 12000)
        return F.Case("cancel%d" % i, ops, {"tags": ["kind:scenario", "relays:%d" % nrel, "cancel"], "kind": "scenario", "cmds": cmds})

    @staticmethod
    def wait(ops, ms):
        """advance in steps of at most 1 s; the server answers every ping (keep-alive and the watchdog are C05's subject)"""
        while ms > 0:
            k = min(ms, 1000)
            ops.append("adv %d" % k)
            ms -= k
            if k == 1000:
                ops.append("pingreply")

    def gen_reboot(self, rng, i):
        """a timer is pending, the device is power-cycled (flash kept) or restarts itself; relays restore their state"""
        nrel = rng.choice([1, 2, 4, 8])
        flags = [rng.choice([4, 4, 2, 0]) | rng.choice([0, 0, 0x10]) for _ in range(nrel)]      # RESTORE_FORCE / RESTORE / none, active-low
        cflags = [rng.choice([0, 0x01000000, 0x01000000]) for _ in range(nrel)]                           # COUNTDOWN_TIMER_SUPPORTED
        setup = ["board relay%d" % nrel] + ["relflags %d %d %d" % (k, flags[k], cflags[k]) for k in range(nrel)] + ["init"]
        ops = list(setup) + ["adv 200"]
        for _ in range(rng.randint(1, 3)):
            ch = rng.randrange(nrel)
            v = rng.choice([1, 1, 1, 0])
            d = rng.choice([2500, 5000, 10000, 12345, 30000, 60000])
            ops.append("msg 110 " + set_value(9, ch, d, bytes([v] + [0] * 7)).hex())
            self.wait(ops, rng.choice([100, 300, 700, 1200, 1500, 2100, 3000]))
        # a power cycle (reset reason 0), or a restart for another reason (4 software restart, 6 reset pin, 2 exception): relays with
        # the 'restore always' flag come back in every case, those with the plain restore flag only after a power cycle
        reason = rng.choice([0, 0, 4, 4, 6, 2])
        ops.append("reboot" if reason == 0 else "reboot %d" % reason)
        ops += setup
        self.wait(ops, 62000)
        return F.Case("reboot%d" % i, ops, {"tags": ["kind:reboot", "relays:%d" % nrel], "kind": "reboot", "flags": flags, "cflags": cflags})

    def derive_model(self, case, raw):
        ops, exp = ["init"], [[]]
        if case.meta.get("kind") == "setdur":
            mo = list(case.meta["mops"])
            for op, g in zip(case.ops, raw):
                if op.startswith("setdur "):
                    ops.append(mo.pop(0))
                    exp.append([x for x in g if x.startswith("DUR ")])
            return "\n".join(ops) + "\n", exp
        if any(o.split()[0] == "reboot" for o in case.ops):
            # the relay state across the restart against Model/Relay (relaySaved / logicalAfterBoot): for every relay with a restore
            # flag that was switched in the life before and had come to rest (the delayed save has run)
            case.meta["raw_impl"] = raw
            self.monitor(case, raw, 0, "")
            infos, reasons = getattr(self, "_infos", []), getattr(self, "_lifereasons", [])
            for li in range(1, len(infos)):
                prev, cur = infos[li - 1], infos[li]
                if not prev or not cur or cur["boot"] is None:
                    continue
                for k, ed in sorted(prev["edges"].items()):
                    fl = prev["flags"].get(k, 0)
                    if not (fl & 0x06) or not ed or k >= len(cur["boot"][0]):
                        continue
                    last_act = max([c[0] for c in prev["cmds"]] + [e[-1][0] // 1000 for e in prev["edges"].values() if e])
                    if last_act > prev["end"] - 1300:
                        continue
                    lo = 1 if fl & 0x10 else 0
                    ops.append("relboot %d %d %d %d %d" % (lo, 1 if fl & 4 else 0, 1 if fl & 2 else 0, reasons[li] if li < len(reasons) else 0, ed[-1][1]))
                    exp.append(["RELBOOT saved=%d logical=%d" % (1 if cur["boot"][0][k] else 0, cur["init_level"].get(k, lo))])
        for op, g in zip(case.ops, raw):
            if op.startswith("cdset "):
                ops.append(op)
                exp.append([])
            elif op.startswith("cdcb "):
                ops.append(op)
                exp.append([x for x in g if x.startswith(("FINISH ", "ITEM ", "DELAY ", "T2L "))])
        return "\n".join(ops) + "\n", exp

    def monitor(self, case, groups, rc, err):
        if rc != 0:
            return [F.Finding("crash", "implementation aborted (rc=%s): %s" % (rc, err[-900:]))]
        raw = case.meta.get("raw_impl") or []
        kind = case.meta.get("kind")
        if kind is None and any(o.startswith("msg 110 ") for o in case.ops):
            kind = "reboot" if any(o.split()[0] == "reboot" for o in case.ops) else "scenario"
        if kind not in ("scenario", "reboot"):
            return []
        # one "life" per power cycle
        lives, cur = [], ([], [])
        reasons = [0]
        for op, g in zip(case.ops, raw):
            if op.split()[0] == "reboot":
                lives.append(cur)
                cur = ([], [])
                reasons.append(int(op.split()[1]) if len(op.split()) > 1 else 0)
            else:
                cur[0].append(op)
                cur[1].append(g)
        lives.append(cur)
        fs = []
        infos = []
        for li, (ops, gs) in enumerate(lives):
            self._info = None
            self._reason = reasons[li] if li < len(reasons) else 0
            fs += self.check_life(ops, gs, li)
            infos.append(self._info)
        self._infos, self._lifereasons = infos, reasons
        # across a power cycle: what a restoring relay comes back with is the state it was last switched to, provided
        # the last relay write on the board was old enough for the save to have happened (it is delayed by SAVE_STATE_DELAY = 1 s)
        for li in range(1, len(infos)):
            prev, cur = infos[li - 1], infos[li]
            if not prev or not cur or cur["boot"] is None:
                continue
            for k, ed in prev["edges"].items():
                if not (prev["flags"].get(k, 0) & 0x06) or not ed:
                    continue
                tm, logical = ed[-1]
                # every relay write (a command, a timer firing, on any channel) postpones the one delayed save
                last_act = max([c[0] for c in prev["cmds"]] + [e[-1][0] // 1000 for e in prev["edges"].values() if e])
                if last_act > prev["end"] - 1300 or k >= len(cur["boot"][0]):
                    continue
                if (1 if cur["boot"][0][k] else 0) != logical:
                    fs.append(F.Finding("saved-state-not-last-state", "relay %d was last switched to %d, %d ms before the power cycle, but %d was saved for the restart"
                                        % (k, logical, prev["end"] - tm // 1000, cur["boot"][0][k])))
        return fs

    def check_life(self, ops, raw, li):
        """commands, GPIO edges and the published remaining times of one life (time runs from 0 in every life)"""
        fs = []
        now, cmds = 0, []
        edges = {}
        nrel = 2
        flags, cflags = {}, {}
        stair = {}
        boot = None
        pub = {}          # channel -> published remaining time (supla_esp_state.Time2Left)
        active = {}       # channel -> (t0, d, v) of the running timer
        end = None
        init_level, after_init = {}, {}
        for op, g in zip(ops, raw):
            t = op.split()
            if any(x == "RESTART" for x in g):
                end = now                     # the device restarted itself inside this op: nothing is expected after it
                break
            if t[0] == "board" and t[1].startswith("relay"):
                nrel = int(t[1][5:])
            elif t[0] == "relflags":
                flags[int(t[1])], cflags[int(t[1])] = int(t[2]), int(t[3])
            elif t[0] == "staircase":
                stair[int(t[1])] = int(t[2])
            elif t[0] == "adv":
                now += int(t[1])
            elif t[0] == "msg" and t[1] in ("110", "115"):
                for x in g:
                    if x.startswith("NOW "):
                        now = int(x.split()[1]) // 1000      # true time: earlier ops advanced it by their os_delay_us
                pl = bytes.fromhex(t[2])
                if t[1] == "110":
                    ch, d, v = pl[4], int.from_bytes(pl[5:9], "little"), pl[9]
                else:       # the same command addressed through a channel group
                    ch, d, v = pl[9], int.from_bytes(pl[10:14], "little"), pl[14]
                v = 1 if v else 0
                if stair.get(ch, 0) > 0:
                    # the configured staircase time, not the command's - except that a duration equal to the remaining time the
                    # device holds for the channel (supla_esp_state.Time2Left, the value it re-arms with at start-up) is taken as
                    # it is: supla_esp_gpio_relay_set_duration_timer compares exactly these two
                    d = (d if d > 0 and pub.get(ch, 0) == d else stair[ch]) if v == 1 else 0
                cmds.append((now, ch, v, d))
                if d > 0 and ch < nrel and (v == 1 or cflags.get(ch, 0x01000000) & 0x01000000):
                    active[ch] = (now, d, v)
                else:
                    active.pop(ch, None)
            for x in g:
                if x.startswith("BOOTSTATE "):
                    p = x.split()
                    boot = ([int(v) for v in p[1].split("=")[1].split(",")], [int(v) for v in p[2].split("=")[1].split(",")], now)
                    for ch, v in enumerate(boot[1]):
                        if v:
                            pub[ch] = v
                elif x.startswith("GPIO "):
                    _, pin, lvl, tm = x.split()
                    k = int(pin) - 1
                    logical = int(lvl) ^ (1 if flags.get(k, 0) & 0x10 else 0)
                    edges.setdefault(k, []).append((int(tm), logical))
                    if t[0] == "init":
                        init_level[k] = logical
                    else:
                        after_init.setdefault(k, []).append((int(tm), logical))
                    if k in active and logical == 1 - active[k][2] and int(tm) >= (active[k][0] + active[k][1]) * 1000 - 500:
                        active.pop(k)         # the timer fired
                elif x.startswith("CHG Time2Left "):
                    _, _, idx, val = x.split()
                    pub[int(idx)] = int(val)
            if t[0] in ("adv", "msg", "init") and (boot is None or t[0] != "init"):
                # what is published (and would be saved) must be the remaining time of the channel's own timer
                for ch in range(8):
                    pv = pub.get(ch, 0)
                    if boot is not None and not cmds:
                        continue              # restored timers are judged below
                    if ch in active:
                        rem = active[ch][0] + active[ch][1] - now
                        # a command on any channel re-arms the shared timer and postpones the next update
                        recent = any(now - c[0] < 1100 for c in cmds if c[0] > active[ch][0])
                        hi = active[ch][1] if recent else rem + 1000 + 80
                        if rem > 80 and not (rem - 80 <= pv <= hi):
                            fs.append(F.Finding("published-time-wrong", "channel %d: %d ms published while %d ms of its %d ms timer remain"
                                                % (ch, pv, rem, active[ch][1])))
                    elif pv != 0 and not any(c[1] == ch and now - c[0] < 150 for c in cmds):
                        fs.append(F.Finding("published-time-wrong", "channel %d has no timer running but %d ms are published as remaining" % (ch, pv)))
        if end is None:
            end = now
        self._info = {"edges": edges, "end": end, "flags": flags, "boot": boot, "cmds": cmds, "init_level": init_level}
        # timed commands of this life
        for k, (t0, ch, v, d) in enumerate(cmds):
            if d == 0:
                continue
            if v == 0 and not cflags.get(ch, 0x01000000) & 0x01000000:
                continue
            newer = [c for c in cmds[k + 1:] if c[1] == ch]
            t_next = newer[0][0] if newer else None
            back = [tm for tm, lvl in edges.get(ch, []) if lvl == 1 - v and tm > t0 * 1000 + 5]
            if t_next is not None and t_next <= t0 + d + 150:
                # cancelled before (or too close to) expiry: edges cannot be attributed unambiguously
                continue
            if t0 + d + 200 > end:
                continue
            mine = [tm for tm in back if (t_next is None or tm < t_next * 1000)]
            if not mine:
                fs.append(F.Finding("timer-did-not-fire", "channel %d: switched to %d for %d ms at %d ms but never switched back" % (ch, v, d, t0)))
                continue
            dt = (mine[0] - t0 * 1000) / 1000.0
            if dt < d - 0.5:
                fs.append(F.Finding("timer-early", "channel %d: %d ms timer fired after %.1f ms" % (ch, d, dt)))
            if dt > d + 100 + 25:     # + the two relay_hi writes of the command itself (2 x 10 ms)
                fs.append(F.Finding("timer-late", "channel %d: %d ms timer fired after %.1f ms" % (ch, d, dt)))
            if len(mine) > 1 and all(lvl == 1 - v for tm, lvl in edges.get(ch, []) if tm in mine[:2]):
                fs.append(F.Finding("timer-fired-twice", "channel %d: two switch-back edges" % ch))
        # a command without a duration (or an 'off' on a channel without the countdown capability) cancels whatever was pending on
        # its channel: until the next command on that channel the output does not change again
        for k, (t0, ch, v, d) in enumerate(cmds):
            timed = d > 0 and (v == 1 or cflags.get(ch, 0x01000000) & 0x01000000)
            if timed or ch >= nrel:
                continue
            newer = [c for c in cmds[k + 1:] if c[1] == ch]
            t_end = newer[0][0] * 1000 if newer else end * 1000
            late = [(tm, lvl) for tm, lvl in edges.get(ch, []) if t0 * 1000 + 60000 < tm < t_end]
            if late:
                fs.append(F.Finding("cancelled-timer-fired", "channel %d: set to %d without a duration at %d ms, yet the output changed "
                                    "to %d at %d ms (a switch-back that this command should have cancelled)" % (ch, v, t0, late[0][1], late[0][0] // 1000)))
        # a life that started from saved state: relays come back as saved and switch back after the saved remaining time
        if boot is not None and not cmds:
            relay, left, t_init = boot
            for k in range(nrel):
                ch = k
                restore = bool(flags.get(k, 0) & 0x04) or (bool(flags.get(k, 0) & 0x02) and getattr(self, "_reason", 0) == 0)
                # pin low at power-on; edges during the init op give the restored level, later ones belong to timers
                level_after_init = init_level.get(k, 0 ^ (1 if flags.get(k, 0) & 0x10 else 0))
                later = after_init.get(k, [])
                if not restore:
                    if later:
                        fs.append(F.Finding("spurious-switch-after-reboot", "relay %d has no restore flag but switched %d ms after the boot" % (k, later[0][0] // 1000)))
                    continue
                want = 1 if relay[k] else 0
                if level_after_init != want:
                    fs.append(F.Finding("state-not-restored", "relay %d: saved state %d, level after boot %d" % (k, want, level_after_init)))
                T = left[ch]
                timed = T > 0 and (want == 1 or cflags.get(k, 0x01000000) & 0x01000000)
                if not timed:
                    if later:
                        fs.append(F.Finding("spurious-switch-after-reboot", "relay %d: no remaining time saved (%d ms, state %d) but it switched %d ms after the boot" % (k, T, want, later[0][0] // 1000)))
                    continue
                if t_init + T + 300 > end:
                    continue
                back = [e for e in later if e[1] == 1 - want]
                if not back:
                    fs.append(F.Finding("restored-timer-did-not-fire", "relay %d came back %d with %d ms remaining but never switched back" % (k, want, T)))
                    continue
                dt = back[0][0] / 1000.0 - t_init
                if dt < T - 0.5 or dt > T + 100 + 40:
                    fs.append(F.Finding("restored-timer-wrong-time", "relay %d: %d ms remained at the restart, switched back %.1f ms after the boot" % (k, T, dt)))
                if len(later) > 1:
                    fs.append(F.Finding("restored-timer-fired-twice", "relay %d: %d level changes after the boot" % (k, len(later))))
        return fs

    def nontrivial_key(self, case, groups):
        raw = case.meta.get("raw_impl") or []
        fin = sum(1 for g in raw for x in g if x.startswith("FINISH "))
        edges = sum(1 for g in raw for x in g if x.startswith("GPIO "))
        if fin == 0 and edges == 0:
            return None
        return (case.meta.get("kind"), min(fin, 9), min(edges, 12), case.meta.get("tags", ["", ""])[1] if len(case.meta.get("tags", [])) > 1 else "")


SPEC = C07()
