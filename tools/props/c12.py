"""C12 — config mode, recalibration, factory reset need physical access or authorisation."""
import struct

import framework as F
from props.c03 import set_value, group_value, chan_config, rs_cfg, calcfg, load_table, load_table_guided

TAG = b"SUPLA"


def frames_in(hexs):
    b = bytes.fromhex(hexs)
    out, i = [], 0
    while i + 23 <= len(b) and b[i:i + 5] == TAG:
        rr, call, ds = struct.unpack("<III", b[i + 6:i + 18])
        out.append((call, b[i + 18:i + 18 + ds]))
        i += 18 + ds + 5
    return out


def rs_list(board):
    if board.startswith("rs"):
        return ["%d:%d" % (i, 1 if i % 2 == 0 else 0) for i in range(int(board[2:]))]
    if board == "mixed":
        return ["0:0"]
    return []


class C12(F.Spec):
    pid = "C12"
    lean_module = "SuplaVerif.Props.C12"
    namespace = "SuplaVerif.C12"
    driver = "drv_dev"
    variant = "cfg"
    model_args = ["calcfg"]     # (the same driver also runs the configuration-button model: cbcfg / cbspan)
    rule = ("(A) server messages through the real dispatcher on boards relay1-8/rs1-4/mixed: CALCFG with every command of "
            "{enter-cfg, recalibrate, others}, both authorisation values (and 2, 255), data types/sizes, channels; plus "
            "all other dispatched call ids with well-sized payloads. The model predicts result code and cfg-mode entry; "
            "monitor: cfg mode only after an authorised enter request, calibration slots only after an authorised "
            "recalibrate, never a flash erase/factory hook. (B) button gestures without server traffic: holds of 1-7 s "
            "and 3-14 quick toggles on cfg / non-cfg / factory-reset inputs. Non-trivial: a CALCFG was answered or a "
            "gesture completed; distinct = (board, command class, auth, outcome).")
    assumptions = ["board calcfg hook returns false (analysed configuration)",
                   "boot-time entry: the real user_init (user_main.c) is run by a second driver (drv_boot) on every combination of "
                   "empty / non-empty server, e-mail, Wi-Fi name, Wi-Fi password, location id, location password (and, in the MQTT "
                   "build, the protocol / no-auth / locked flags)",
                   "MQTT 'recalibrate' command topics are outside 'server message' (DESIGN.md O5)"]

    def cases(self, rng, tier):
        self.rows, self.disp = load_table_guided()
        n = 150 if tier == "quick" else 2000
        # witness of the recorded finding, every run
        yield F.Case("witness-enter-cfgmode", ["board relay2", "init", "msg 460 " + calcfg(3, 0, 9000, 1, 0, b"").hex(), "adv 100"],
                     {"tags": ["kind:server", "board:relay2"], "board": "relay2", "kind": "server"})
        for i in range(n):
            yield self.gen_server(rng, i)
        for i in range(120 if tier == "quick" else 1200):
            yield self.gen_buttons(rng, i)
        for i in range(10 if tier == "quick" else 80):
            yield self.gen_at_cfg(rng, i)
        for c in self.gen_anycall(rng, tier):
            yield c

    def gen_server(self, rng, i):
        board = rng.choice(["relay2", "relay8", "rs1", "rs2", "rs3", "rs4", "mixed"])
        ops = ["board " + board, "init"]
        if board.startswith("rs"):
            for k in range(int(board[2:])):
                ops.append("rstimes %d 3000 3000 0 0" % k)
                ops.append("rspos %d 5000 0" % k)
        reqs = []
        for _ in range(rng.randint(1, 6)):
            if rng.random() < .7:
                cmd = rng.choice([9000, 9000, 8000, 8000, 8000, 0, 1, 7999, 8001, 8999, 9001, 5000, 6000, 6100, -1])
                auth = rng.choice([0, 0, 1, 1, 2, 255])
                ch = rng.choice([0, 0, 1, 2, 3, 4, 7, 8, 255, -1, 256, 257, 258, 512, -256, 65536, 16777216])   # (the field is 32 bits wide)
                dt = rng.choice([0, 0, 1000, 1000, 1, 999])
                data = bytes(rng.getrandbits(8) for _ in range(rng.choice([0, 0, 8, 8, 4, 16])))
                if dt == 1000 and len(data) == 8 and rng.random() < .7:
                    data = struct.pack("<ii", rng.choice([0, 2000, 6000]), rng.choice([0, 2000, 6000]))
                if rng.random() < .3:
                    # a complete, well-formed recalibrate / enter-cfg request: only the authorisation flag decides
                    cmd = rng.choice([8000, 8000, 9000])
                    dt, data = 1000, struct.pack("<ii", rng.choice([0, 2000, 6000]), rng.choice([0, 2000, 6000]))
                    ch = rng.choice([0, 0, 1, 2, 256, 257, 258, -256, 65536])
                    auth = rng.choice([0, 0, 0, 1, 2, 255])
                if board.startswith("rs"):
                    # every request meets calibrated shutters without a task, so that a recalibration is always visible
                    for k in range(int(board[2:])):
                        ops += ["rscancel %d" % k, "rstimes %d 3000 3000 0 0" % k, "rspos %d 5000 0" % k]
                ops.append("msg 460 " + calcfg(3, ch, cmd, auth if auth < 128 else auth - 256, dt, data).hex())
                reqs.append((ch, cmd, auth, dt, len(data)))
            else:
                # any other well-sized dispatched message
                ch = rng.choice([0, 1, 2, 5, 255])
                m = rng.choice(["set", "group", "cfg", "finished", "timeout", "state"])
                if m == "set":
                    ops.append("msg 110 " + set_value(1, ch, rng.choice([0, 500]), bytes([rng.choice([0, 1, 2, 110])] + [0] * 7)).hex())
                elif m == "group":
                    ops.append("msg 115 " + group_value(1, 2, 1, ch, 0, bytes([1] + [0] * 7)).hex())
                elif m == "cfg":
                    ops.append("msg 690 " + chan_config(ch, rng.choice([110, 900, 130, 140, 700]), 0,
                                                        rs_cfg(3000, 3000, rng.choice([0, 1, 2]), rng.choice([0, 1, 2]), -1, 0)).hex())
                elif m == "finished":
                    ops.append("msg 683 %02x" % ch)
                elif m == "timeout":
                    ops.append("msg 220 0a0af0")
                else:
                    ops.append("msg 500 " + (struct.pack("<iB", 4, ch) + b"\0\0\0").hex())
            if rng.random() < .3:
                ops.append("adv %d" % rng.choice([10, 200, 1500]))
        return F.Case("srv%d-%s" % (i, board), ops, {"tags": ["kind:server", "board:" + board], "board": board, "kind": "server"})

    def gen_anycall(self, rng, tier):
        """Every call id the receive path knows, in each payload size it accepts, with a payload that reads as an authorised
        enter-configuration / recalibrate request when looked at through TSD_DeviceCalCfgRequest (and random payloads):
        'no other server message starts configuration mode or alters calibration'."""
        rows = dict(self.rows)
        if not rows:
            return
        skip = {30, 70, 460}        # version error / registration result end the connection (C04); 460 is the request itself
        k = 0
        for cid in sorted(rows):
            if cid in skip:
                continue
            kind, a, alloc = rows[cid]
            if kind == "exact":
                sizes = list(a)
            elif kind == "valid":
                main, item, mx, fo, fw = a[:5]
                sizes = [main, main - item * mx]
            elif kind == "noData":
                sizes = [0]
            else:
                sizes = [1, 8, 40, 208]
            for n in sizes:
                for rep in range(1 if tier == "quick" else 6):
                    board = rng.choice(["relay2", "rs1", "rs2", "rs3", "mixed"])
                    ops = ["board " + board, "init"]
                    if board.startswith("rs"):
                        for j in range(int(board[2:])):
                            ops += ["rstimes %d 3000 3000 0 0" % j, "rspos %d 5000 0" % j]
                    for cmd in ([9000, 8000] if rep % 2 == 0 else [8000, 9000]):
                        ch = rng.choice([0, 0, 2]) if cmd == 8000 else rng.choice([0, 1, 255])
                        over = calcfg(rng.choice([0, 1, 3]), ch, cmd, 1, rng.choice([0, 1000]) if cmd == 8000 else 0,
                                      struct.pack("<ii", 2000, 2000) if rng.random() < .5 else b"")
                        if rep >= 3:
                            over = bytes(rng.getrandbits(8) for _ in range(8)) + over[8:]
                        pl = (over + bytes(rng.getrandbits(8) for _ in range(max(0, n - len(over)))))[:n]
                        if kind == "valid" and n >= fo + fw and not (fo < 21 <= n):
                            cnt = (n - (main - item * mx)) // max(item, 1)
                            b = bytearray(pl); b[fo:fo + fw] = cnt.to_bytes(fw, "little"); pl = bytes(b)
                        ops.append("msg %d %s" % (cid, pl.hex() if pl else "-"))
                        ops.append("adv 100")
                    k += 1
                    yield F.Case("anycall%d-%d-%d-%s" % (k, cid, n, board), ops,
                                 {"tags": ["kind:anycall", "board:" + board, "call:%d" % cid], "board": board, "kind": "server"})

    def gen_at_cfg(self, rng, i):
        """the configuration button (toggle gesture enabled) is also an action-trigger input: nine quick presses, then the server
        changes the set of active triggers (channel configuration), then - at once or seconds later - one or two more presses.
        Ten presses in quick succession did not happen; a server message is no cause of configuration mode."""
        board = rng.choice(["relay2", "relay4"])
        typ0 = 2 if i % 3 else 4
        f0 = 0x03 | 0x20                      # CFG button, toggle gesture enabled
        cap = (sum(1 << (10 + k) for k in range(1, 6)) | 1024) if typ0 == 2 else (sum(1 << (1 + k) for k in range(1, 6)) | 3)
        m1 = (1 << 12) if typ0 == 2 else (1 << 3)          # x2
        m2 = (1 << 13) if typ0 == 2 else (1 << 4)          # x3
        ops = ["board " + board, "inflags 0 %d" % f0, "intype 0 %d" % typ0, "incap 0 5 %d" % cap, "inlevel 9 1", "inlevel 10 1", "init",
               "inlog 1", "adv 1000", "attrig 0 %d" % rng.choice([0, m1])]
        lvl = 1
        def press():
            nonlocal lvl
            if typ0 == 2:
                ops.extend(["input 9 0", "adv 150", "input 9 1", "adv 150"])
            else:
                lvl = 1 - lvl
                ops.extend(["input 9 %d" % lvl, "adv 300"])
        for _ in range(9):
            press()
        ops.append("attrig 0 %d" % rng.choice([m1, m2, m1 | m2]))
        ops.append("adv %d" % [2500, 6000, 6000, 300][i % 4])
        for _ in range(rng.choice([1, 1, 2])):
            press()
        ops.append("adv 2500")
        return F.Case("atcfg%d-%s" % (i, board), ops, {"tags": ["kind:buttons", "gesture:at-config-change"], "board": board, "kind": "buttons",
                                                       "at": True, "pin": 9, "f0": f0, "typ0": typ0, "gesture": ("atcfg",)})

    def gen_buttons(self, rng, i):
        board = rng.choice(["relay2", "relay4", "rs1", "rs2"])
        # input 0 is the configuration button; input 1 is a plain button
        f0 = rng.choice([0x03, 0x03 | 0x04, 0x03 | 0x40, 0x03 | 0x20, 0x03 | 0x20 | 0x40 | 0x04])
        # (inputs are released at power-on: pull-up level 1)
        typ0 = rng.choice([2, 2, 2, 4])          # the configuration button is monostable or bistable
        ops = ["board " + board, "inflags 0 %d" % f0, "intype 0 %d" % typ0, "inlevel 9 1", "inlevel 10 1", "init", "inlog 1", "adv 1000"]
        pin = 9 if rng.random() < .7 else 10
        g = rng.choice(["hold", "hold", "toggles", "slowtoggles"])
        if g == "slowtoggles":
            # ten or more toggles in all, but never ten in quick succession: a pause of 3..30 s separates two short runs. In half of
            # the cases the 32-bit microsecond counter wraps inside the pause, at least 2 s after the last toggle before it.
            n1, n2 = rng.choice([(9, 1), (9, 3), (5, 5), (8, 9), (9, 9)])
            pause = rng.choice([3000, 5000, 8000, 20000, 30000])
            pre = 1000
            for _ in range(n1):
                ops += ["input %d 0" % pin, "adv 150", "input %d 1" % pin, "adv 150"]
                pre += 300
            ops.append("adv %d" % pause)
            for _ in range(n2):
                ops += ["input %d 0" % pin, "adv 150", "input %d 1" % pin, "adv 150"]
            ops.append("adv 2500")
            if rng.random() < .6:
                ops = ["boot %d" % (4294967296 - (pre + rng.randint(2100, pause - 200)) * 1000 - rng.randint(0, 999))] + ops
            return F.Case("btn%d-%s" % (i, board), ops, {"tags": ["kind:buttons", "gesture:" + g], "board": board, "kind": "buttons",
                                                         "pin": pin, "f0": f0, "typ0": typ0, "gesture": ("slowtoggles", n1, n2, pause)})
        if g == "hold":
            ms = rng.choice([1000, 3000, 4500, 4900, 5200, 6000, 7000])
            ops += ["input %d 0" % pin, "adv %d" % ms, "input %d 1" % pin, "adv 1500"]
            meta = ("hold", ms)
            if rng.random() < .5:       # a second long hold: factory reset only from cfg mode
                ops += ["input %d 0" % pin, "adv 6500", "input %d 1" % pin, "adv 500"]
        else:
            n = rng.choice([3, 9, 10, 11, 14])
            for _ in range(n):
                ops += ["input %d 0" % pin, "adv 150", "input %d 1" % pin, "adv 150"]
            ops.append("adv 2500")
            meta = ("toggles", n)
        if rng.random() < .5:
            # the 32-bit microsecond counter wraps inside the gesture
            total = sum(int(o.split()[1]) for o in ops if o.startswith("adv "))
            ops = ["boot %d" % (4294967296 - rng.randint(1000, max(total, 1001)) * 1000 - rng.randint(0, 999))] + ops
        return F.Case("btn%d-%s" % (i, board), ops, {"tags": ["kind:buttons", "gesture:" + g], "board": board, "kind": "buttons",
                                                     "pin": pin, "f0": f0, "typ0": typ0, "gesture": meta})

    def derive_buttons(self, case, raw):
        """the configuration button (input 0): every recognised state change goes to the model of the legacy handling, which
        generates the 20 ms callbacks itself; it must start configuration mode in exactly the same interval"""
        f0 = case.meta.get("f0")
        if f0 is None:
            f0 = next((int(o.split()[2]) for o in case.ops if o.startswith("inflags 0 ")), 3)
        typ0 = case.meta.get("typ0") or next((int(o.split()[2]) for o in case.ops if o.startswith("intype 0 ")), 2)
        cfgbtn = bool(f0 & 0x02)
        on_hold = cfgbtn and typ0 == 2 and (not f0 & 0x20 or bool(f0 & 0x40))
        on_toggle = cfgbtn and (typ0 in (4, 8) or bool(f0 & 0x20))
        ops, exp = ["cbcfg %d %d %d" % (typ0, on_hold, on_toggle)], [[]]
        for op, g in zip(case.ops, raw):
            tnow = [x for x in g if x.startswith("TNOW ")]
            if not tnow:
                continue
            evs = ["%s@%s" % (x.split()[2], x.split()[3]) for x in g if x.startswith("INCHG 0 ")]
            ops.append("cbspan %s %s" % (tnow[-1].split()[1], " ".join(evs)))
            ent = "CHG CfgMode 0 1" in g
            exp.append(["CB cfgmode"] if ent else [])
            if ent:
                break
        return "\n".join(ops) + "\n", exp

    def derive_model(self, case, raw):
        if case.meta.get("at"):
            return "", []        # action-trigger handling of the configuration button: judged by the gesture monitor only
        if case.meta.get("kind") == "buttons" or (case.meta.get("kind") is None and any(o.startswith("inlog ") for o in case.ops)):
            return self.derive_buttons(case, raw)
        ops, exp = [], []
        board = case.meta.get("board") or next((o.split()[1] for o in case.ops if o.startswith("board ")), "relay2")
        cfgmode = False
        for op, g in zip(case.ops, raw):
            t = op.split()
            if "MSGSTART" in g:
                g = g[g.index("MSGSTART") + 1:]
            if t[0] == "msg" and t[1] == "460" and any(x == "GETDATA 460 1" for x in g) and not cfgmode:
                pl = bytes.fromhex(t[2])
                sender, ch, cmd, auth, dt, ds = struct.unpack("<iiibiI", pl[:21])
                ops.append("calcfg %d %d %d %d %d %s" % (ch, cmd, auth & 255, dt, ds, " ".join(rs_list(board))))
                res = None
                for x in g:
                    if x.startswith("SENT 0 "):
                        for call, body in frames_in(x.split()[2]):
                            if call == 470 and len(body) >= 16:
                                res = struct.unpack("<i", body[12:16])[0]
                ent = 1 if "CHG CfgMode 0 1" in g else 0
                recal = sorted(set(int(x.split()[2]) for x in g if x.startswith("CHG RsTask ")))
                exp.append(["RESULT %s CFGMODE %d RECAL [%s]" % (res, ent, ", ".join(str(r) for r in recal))])
            if "CHG CfgMode 0 1" in g:
                cfgmode = True
        return "\n".join(ops) + "\n", exp

    def canon_model(self, groups):
        return groups

    def monitor(self, case, groups, rc, err):
        if rc != 0:
            if "heap-use-after-free" in err and "srpc_iterate" in err and any(
                    o.startswith("msg 460 ") and len(o.split()[2]) >= 42 and
                    struct.unpack("<iiib", bytes.fromhex(o.split()[2])[:13])[2:] == (9000, 1) for o in case.ops):
                return [F.Finding("enter-cfgmode-frees-running-srpc",
                                  "authorised ENTER_CFG_MODE: supla_esp_cfgmode_start() frees the srpc instance from inside its own "
                                  "remote-call callback; srpc_iterate continues on freed memory (ASan heap-use-after-free)")]
            if "heap-use-after-free" in err and "supla_esp_cfgmode_start" in err and not any(o.startswith("input ") for o in case.ops):
                # the same abort, but no authorised enter-configuration request (and no button) is part of the case: configuration
                # mode was started by some other server message
                msgs = [o[:60] for o in case.ops if o.startswith("msg ")]
                return [F.Finding("cfgmode-without-authorisation", "configuration mode was started (and the run aborted inside it) "
                                  "although none of the messages is an authorised enter-configuration request: %s" % msgs[-3:])]
            return [F.Finding("crash", "implementation aborted (rc=%s): %s" % (rc, err[-900:]))]
        raw = case.meta.get("raw_impl") or []
        fs = []
        kind = case.meta.get("kind") or ("server" if any(o.startswith("msg ") for o in case.ops) else "buttons")
        entered = False
        for op, g in zip(case.ops, raw):
            t = op.split()
            if "MSGSTART" in g:
                g = g[g.index("MSGSTART") + 1:]
            ent = "CHG CfgMode 0 1" in g
            fact = any(x.startswith(("FACTORYHOOK", "FLASH erase")) for x in g)
            calib = [x for x in g if x.startswith(("CHG RsPos", "CHG AutoCalOpen", "CHG AutoCalClose", "CHG RsTask"))]
            if kind == "server":
                authorised_enter = False
                authorised_recal = False
                if t[0] == "msg" and t[1] == "460" and len(t[2]) >= 42:
                    pl = bytes.fromhex(t[2])
                    sender, ch, cmd, auth, dt, ds = struct.unpack("<iiibiI", pl[:21])
                    authorised_enter = cmd == 9000 and auth == 1
                    authorised_recal = cmd == 8000 and auth != 0
                if ent and not authorised_enter:
                    fs.append(F.Finding("cfgmode-without-authorisation", "configuration mode started by '%s'" % op[:60]))
                if t[0] == "msg" and t[1] == "460" and len(t[2]) >= 42 and any(x == "GETDATA 460 1" for x in g) and not entered \
                        and not (authorised_enter or authorised_recal) and (cmd == 9000 or (
                            cmd == 8000 and (dt == 0 or (dt == 1000 and ds == 8)) and
                            ("%d:1" % ch) in rs_list(case.meta.get("board") or next((o.split()[1] for o in case.ops if o.startswith("board ")), "relay2")))):
                    # (a request the device would carry out if it were authorised: enter-configuration, or a recalibrate that names
                    # one of its recalibratable shutters in one of the two accepted forms)
                    # "answered 'unauthorised'": the CALCFG result code for it (SUPLA_CALCFG_RESULT_UNAUTHORIZED = 104)
                    res = None
                    for x in g:
                        if x.startswith("SENT 0 "):
                            for call, body in frames_in(x.split()[2]):
                                if call == 470 and len(body) >= 16:
                                    res = struct.unpack("<i", body[12:16])[0]
                    if res is not None and res != 104:
                        fs.append(F.Finding("unauthorised-request-not-answered-unauthorised", "'%s' is answered with result %d, not with "
                                            "'unauthorised' (104)" % (op[:60], res)))
                if fact:
                    fs.append(F.Finding("settings-erased-by-server-message", "flash/factory reset after '%s'" % op[:60]))
                if t[0] == "msg" and t[1] not in ("460", "110", "115", "690", "682") and not entered and \
                        [x for x in calib if x.startswith(("CHG AutoCal", "CHG RsPos"))]:
                    # (set-value commands move a shutter and a channel configuration with new times resets it by design)
                    fs.append(F.Finding("calibration-altered-by-other-message", "'%s' changed %s" % (op[:60], calib[:2])))
                if t[0] == "msg" and t[1] == "460" and calib and not authorised_recal and not entered:
                    fs.append(F.Finding("calibration-altered-without-authorisation", "'%s' changed %s" % (op[:60], calib[:2])))
            else:
                if fact and not entered:
                    fs.append(F.Finding("factory-reset-outside-cfgmode", "settings erased while not in configuration mode"))
                if fact and not (case.meta.get("f0", 0) & 4 and case.meta.get("pin") == 9):
                    fs.append(F.Finding("factory-reset-by-plain-button", "settings erased by a button without the factory-reset flag"))
            if ent:
                entered = True
        if kind == "buttons":
            # derive the gestures from the ops: holds (ms with the pin low) and press counts per pin
            typ0 = case.meta.get("typ0") or next((int(o.split()[2]) for o in case.ops if o.startswith("intype 0 ")), 2)
            holds, presses, down_at, now = {}, {}, {}, 0
            counted = []        # times (ms) of the state changes of the configuration button that count as toggles
            for op in case.ops:
                t = op.split()
                if t[0] == "adv":
                    now += int(t[1])
                elif t[0] == "input":
                    pin, lvl = int(t[1]), int(t[2])
                    if lvl == 0:
                        down_at[pin] = now
                        presses[pin] = presses.get(pin, 0) + 1
                        if pin == 9:
                            counted.append(now)
                    elif pin in down_at:
                        holds[pin] = max(holds.get(pin, 0), now - down_at.pop(pin))
                        if pin == 9 and typ0 != 2:
                            presses[pin] = presses.get(pin, 0) + 1        # a bistable button counts every change
                            counted.append(now)
            for pin, t0 in down_at.items():
                holds[pin] = max(holds.get(pin, 0), now - t0)
            cfg_hold = holds.get(9, 0) >= 4900 and typ0 == 2          # input 0 (pin 9) is the configuration button
            # "in quick succession": each within 2 s of the one before (200 ms of tolerance for the debouncing)
            run = best = 0
            for j, tm in enumerate(counted):
                run = run + 1 if j and tm - counted[j - 1] < 2200 else 1
                best = max(best, run)
            cfg_toggles = best >= 10
            if entered and not cfg_hold and not cfg_toggles:
                fs.append(F.Finding("cfgmode-without-gesture", "cfg mode entered; longest hold on the cfg button %d ms, %d presses; "
                                    "other buttons: %s" % (holds.get(9, 0), presses.get(9, 0), {k: v for k, v in holds.items() if k != 9})))
        return fs

    def boot_family(self, tier="quick", rng=None):
        """user_init on every combination of what it looks at, both builds: the decision of the real code, of the Lean model
        (bootCfgModeBase / bootCfgModeMqtt) and the property's reading (configuration mode only with an incomplete configuration)"""
        import common as C
        from props.c14 import SPEC as C14
        o = C14.offsets()
        out, ev = [], 0
        self._boot_diff = []
        for variant, flags, units, nbits in (("base", [], [], 6), ("mqtt", ["-DMQTT_SUPPORT_ENABLED"], C.MQTT_UNITS, 9)):
            exe = C.build_driver("drv_boot", variant, extra_units=["src/user/user_main.c"] + list(units),
                                 extra_flags=["-DSPI_FLASH_SIZE_MAP=2"] + flags)
            vs = list(range(1 << nbits))
            if tier == "quick" and nbits > 6 and rng is not None:
                vs = sorted(rng.sample(vs, 96))        # the quick tier samples the MQTT build; the thorough tier runs all 512
            mrc, mlines, merr = C.run_lines([C.svdrv(), "calcfg"], "".join(
                "bootcfg %s %s\n" % (variant, "".join(str((v >> k) & 1) for k in range(9))) for v in vs))
            model = [x for x in mlines if x.startswith("BOOT ")]
            # (base build: every combination also as a record of the previous storage layout - tag version 6 -, which user_init
            # migrates before it looks at it: a migration is no cause of configuration mode either)
            runs = [(vi, v, False) for vi, v in enumerate(vs)] + ([(vi, v, True) for vi, v in enumerate(vs)] if variant == "base" else [])
            for vi, v, old_layout in runs:
                b = [(v >> k) & 1 for k in range(9)]      # locId0 locPwd0 email0 server0 wifiPwd0 ssid0 mqtt noauth locked
                fl = (1 if b[6] else 0) | (8 if b[7] else 0) | (16 if b[8] else 0)
                ops = ["prepare",
                       "set %d %s" % (o["port"], (0 if b[0] else 77).to_bytes(4, "little").hex()),
                       "set %d %s" % (o["pwd"], (b"\0" if b[1] else b"secret\0").hex()),
                       "set %d %s" % (o["email"], (b"\0" if b[2] else b"user@example.org\0").hex()),
                       "set %d %s" % (o["server"], (b"\0" if b[3] else b"srv.example\0").hex()),
                       "set %d %s" % (o["wpwd"], (b"\0" if b[4] else b"wifisecret\0").hex()),
                       "set %d %s" % (o["ssid"], (b"\0" if b[5] else b"net\0").hex()),
                       "set %d %s" % (o["flags"], fl.to_bytes(4, "little").hex())] + (["set 5 06"] if old_layout else []) + \
                      ["save", "userinit"]
                rc, lines, err = C.run_lines([exe], "\n".join(ops) + "\n")
                ev += 1
                if rc != 0:
                    out.append((F.Finding("crash", "user_init aborted (rc=%s): %s" % (rc, err[-600:])), ops))
                    return ev, out
                got = [x for x in lines if x.startswith("BOOT ")]
                bits = "".join(str(x) for x in b)
                want = model[vi:vi + 1]
                if got != want and not self._boot_diff:
                    self._boot_diff.append("%s build, bits %s (locId0 locPwd0 email0 server0 wifiPwd0 ssid0 mqtt noauth locked): user_init %s, "
                                           "model %s\n%s" % (variant, bits, got, want, "\n".join(ops)))
                complete = not (b[2] or b[3] or b[4] or b[5])
                if variant == "mqtt" and b[6]:
                    complete = not (b[3] or b[4] or b[5] or b[8] or (not b[7] and (b[2] or b[1])))
                if complete and got == ["BOOT cfgmode=1"]:
                    out.append((F.Finding("cfgmode-at-boot-with-complete-configuration", "%s build: server, Wi-Fi and account are set "
                                          "(bits %s) but the device starts its open configuration mode" % (variant, bits)), ops))
                    return ev, out
        return ev, out

    def extra_static(self, tier):
        """the boot decision of the real user_init equals the Lean model on every combination run (a disagreement breaks the
        tie; whether it is a violation is decided by the property's reading in extra_findings)"""
        import common as C
        try:
            self._boot = self.boot_family(tier, C.Rng(12))
        except C.BuildError as e:
            self._boot = (0, [])
            return [("boot decision: user_init = model", False, "drv_boot does not build: " + str(e)[-800:])]
        out = [("boot decision: user_init = model", not self._boot_diff, self._boot_diff[0] if self._boot_diff else "")]
        # theorem c12_toggle_window_is_elapsed_time is about the subtracting form of the 2 s window test: the source must have it
        import os, re
        src = re.sub(r"\s+", " ", open(os.path.join(C.REPO, "src/user/supla_esp_input.c")).read())
        needle = "if ((system_get_time() - input_cfg->last_state_change >= 2000 * 1000)) { input_cfg->click_counter = 1;"
        out.append(("toggle window: 'system_get_time() - last_state_change >= 2000 * 1000' (C12.B3)", needle in src,
                    "" if needle in src else "supla_esp_input_legacy_state_change_handling: the window test is no longer the subtracting form"))
        return out

    def extra_findings(self, tier, rng):
        if getattr(self, "_boot", None) is None:
            self._boot = self.boot_family(tier, rng)
        ev, out = self._boot
        return ev, ev, out

    def extra_replay(self, ops):
        """replays of the boot family (ops end with userinit): judged by the property's reading"""
        if not ops or ops[-1] != "userinit":
            return []
        import common as C
        fs = []
        for variant, flags, units in (("base", [], []), ("mqtt", ["-DMQTT_SUPPORT_ENABLED"], C.MQTT_UNITS)):
            exe = C.build_driver("drv_boot", variant, extra_units=["src/user/user_main.c"] + list(units),
                                 extra_flags=["-DSPI_FLASH_SIZE_MAP=2"] + flags)
            rc, lines, err = C.run_lines([exe], "\n".join(ops) + "\n")
            if rc != 0:
                return [F.Finding("crash", "user_init aborted (rc=%s): %s" % (rc, err[-600:]))]
            vals = {}
            for o in ops:
                t = o.split()
                if t[0] == "set":
                    vals[int(t[1])] = bytes.fromhex(t[2])
            from props.c14 import SPEC as C14
            of = C14.offsets()
            empty = lambda k: vals.get(of[k], b"x")[:1] == b"\0"
            fl = int.from_bytes(vals.get(of["flags"], bytes(4)), "little")
            complete = not (empty("email") or empty("server") or empty("wpwd") or empty("ssid"))
            if variant == "mqtt" and fl & 1:
                complete = not (empty("server") or empty("wpwd") or empty("ssid") or fl & 16 or (not fl & 8 and (empty("email") or empty("pwd"))))
            if variant == "base" and fl:
                continue
            if complete and "BOOT cfgmode=1" in lines:
                fs.append(F.Finding("cfgmode-at-boot-with-complete-configuration", "%s build: the configuration is complete but the "
                                    "device starts its open configuration mode" % variant))
        return fs

    def nontrivial_key(self, case, groups):
        raw = case.meta.get("raw_impl") or []
        k = set()
        for g in raw:
            for x in g:
                if x.startswith("GETDATA 460"):
                    k.add(x)
                if x.startswith("CHG CfgMode"):
                    k.add("cfgmode")
                if x.startswith("FACTORYHOOK"):
                    k.add("factory")
        return (case.meta.get("board"), case.meta.get("kind"), str(case.meta.get("gesture")), tuple(sorted(k))) if (k or case.meta.get("kind") == "buttons") else None


SPEC = C12()
