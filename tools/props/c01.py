"""C01 — SRPC receiver delivers only genuine well-formed frames and is memory-safe."""
import struct

import framework as F

TAG = b"SUPLA"
HDR, MAXD, VER, VERMIN = 18, 1536, 23, 1
U32 = 1 << 32


def frame(ver, rr, call, payload, ds=None, endtag=TAG, begtag=TAG):
    if ds is None:
        ds = len(payload)
    return begtag + bytes([ver & 255]) + struct.pack("<III", rr % U32, call % U32, ds % U32) + payload + endtag


def good_frames(s):
    """reference: frames of stream s, greedy; returns (frames, tail_kind, consumed)"""
    out, pos = [], 0
    while True:
        d = s[pos:]
        if len(d) < 5:
            return out, "incomplete" if len(d) else "empty", pos
        if d[:5] != TAG:
            return out, "malformed", pos
        if len(d) < 23:
            return out, "incomplete", pos
        ver = d[5]
        rr, call, ds = struct.unpack("<III", d[6:18])
        if ver > VER or ver < VERMIN:
            return out, "malformed", pos
        if ds > MAXD:
            return out, "malformed", pos
        if len(d) < HDR + ds + 5:
            return out, "incomplete", pos
        if d[HDR + ds:HDR + ds + 5] != TAG:
            return out, "malformed", pos
        out.append((ver, rr, call, d[HDR:HDR + ds]))
        pos += HDR + ds + 5


def chunkings(rng, s, style):
    if style == "whole":
        cs = [s[i:i + 1024] for i in range(0, len(s), 1024)]
    elif style == "byte":
        cs = [s[i:i + 1] for i in range(len(s))]
    elif style == "big":
        cs, i = [], 0
        while i < len(s):
            n = rng.choice([1025, 1460, 1100, 700, 300])
            cs.append(s[i:i + n])
            i += n
    else:
        cs, i = [], 0
        while i < len(s):
            n = rng.choice([1, 2, 3, 4, 5, 6, 17, 18, 22, 23, 24, 100, 255, 256, 257, 511, 512, 1000, 1024])
            cs.append(s[i:i + n])
            i += n
    return [c for c in cs if c]


def rand_payload(rng):
    k = rng.random()
    if k < 0.2:
        n = 0
    elif k < 0.6:
        n = rng.randint(1, 40)
    elif k < 0.8:
        n = rng.choice([233, 238, 256, 489, 494, 512, 1000, 1001, 1023, 1024])
    elif k < 0.9:
        n = rng.choice([MAXD, MAXD - 1, MAXD - 5])
    else:
        n = rng.randint(41, MAXD)
    # sometimes embed the tag inside the payload
    p = bytes(rng.getrandbits(8) for _ in range(n))
    if n > 10 and rng.random() < 0.3:
        i = rng.randint(0, n - 5)
        p = p[:i] + TAG + p[i + 5:]
    return p


class C01(F.Spec):
    pid = "C01"
    lean_module = "SuplaVerif.Props.C01"
    namespace = "SuplaVerif.C01"
    driver = "drv_io"
    model_args = ["io"]
    rule = ("streams of 1-6 valid frames, single-field corruptions (tag, version, data_size incl. values that wrap "
            "32-bit sums, end tag, truncation), random bytes; chunkings whole/1-byte/random/oversized; iterate "
            "ticks interleaved. A case is non-trivial if the implementation delivered >=1 frame or reported an "
            "error; distinct = distinct (delivered count, error kinds, chunk style, corruption kind).")
    assumptions = [
        "realloc never fails", "TLS record layer not modelled (recv callback = one plaintext segment)",
        "handler = logger popping the in-queue as srpc_getdata does (real handlers are C03's subject)",
    ]

    def cases(self, rng, tier):
        n = 400 if tier == "quick" else 6000
        for i in range(n):
            yield self.gen(rng, i)

    def gen(self, rng, i):
        kind = rng.choice(["valid", "valid", "valid", "corrupt", "corrupt", "random", "many-small"])
        frames = []
        nfr = rng.randint(1, 5)
        if kind == "many-small":
            nfr = rng.randint(30, 120)
            for k in range(nfr):
                frames.append(frame(rng.randint(1, 23), k + 1, rng.choice([40, 50, 70]), b""))
        else:
            for k in range(nfr):
                frames.append(frame(rng.randint(VERMIN, VER), rng.getrandbits(32), rng.getrandbits(32) if rng.random() < .3
                                    else rng.choice([40, 50, 70, 100, 230]), rand_payload(rng)))
        ckind = "-"
        s = b"".join(frames)
        if kind == "corrupt":
            j = rng.randrange(len(frames))
            ckind = rng.choice(["tag", "ver0", "ver24", "ver255", "ds+1", "ds-1", "dsmax+1", "wrap0", "wrapk", "wrap6",
                                "ds_huge", "endtag", "trunc", "ds_ffffffff"])
            pl = rand_payload(rng) if rng.random() < .5 else b"\x01\x02\x03"
            if ckind == "tag":
                f = bytearray(frame(23, 5, 40, pl))
                f[rng.randrange(5)] ^= 1 << rng.randrange(8)
                f = bytes(f)
            elif ckind == "ver0":
                f = frame(0, 5, 40, pl)
            elif ckind == "ver24":
                f = frame(VER + 1, 5, 40, pl)
            elif ckind == "ver255":
                f = frame(255, 5, 40, pl)
            elif ckind == "ds+1":
                f = frame(23, 5, 40, pl, ds=len(pl) + 1)
            elif ckind == "ds-1":
                f = frame(23, 5, 40, pl, ds=max(len(pl) - 1, 0)) if pl else frame(23, 5, 40, b"x", ds=0)
            elif ckind == "dsmax+1":
                f = frame(23, 5, 40, b"\x00" * (MAXD + 1))
            elif ckind == "wrap0":
                f = frame(23, 9, 9, b"", ds=U32 - HDR, endtag=b"")
            elif ckind == "wrapk":
                f = frame(23, 9, 9, b"", ds=U32 - HDR + rng.randint(1, 17), endtag=TAG)
            elif ckind == "wrap6":
                f = TAG + bytes([23]) + TAG + b"\x00\x00\x00" + struct.pack("<I", U32 - 12) + TAG
            elif ckind == "ds_huge":
                f = frame(23, 5, 40, pl, ds=rng.choice([MAXD + 1, 2000, 65536, 1 << 31, U32 - 19, U32 - 23]))
            elif ckind == "ds_ffffffff":
                f = frame(23, 5, 40, pl, ds=U32 - 1)
            elif ckind == "endtag":
                f = bytearray(frame(23, 5, 40, pl))
                f[-rng.randint(1, 5)] ^= 0x20
                f = bytes(f)
            else:
                f = frame(23, 5, 40, pl)
                f = f[:rng.randint(1, len(f) - 1)]
            frames[j] = f
            s = b"".join(frames)
        elif kind == "random":
            s = bytes(rng.getrandbits(8) for _ in range(rng.randint(1, 300)))
            if rng.random() < .5:
                s = TAG + s
            if rng.random() < .3:
                s = frames[0] + s
        style = rng.choice(["whole", "byte", "rand", "rand", "rand", "big"]) if len(s) < 3000 else rng.choice(
            ["whole", "rand", "big"])
        if style == "byte" and len(s) > 400:
            style = "rand"
        ops = []
        for c in chunkings(rng, s, style):
            ops.append("recv " + c.hex())
            for _ in range(rng.choice([0, 0, 0, 1, 1, 2, 5])):
                ops.append("tick")
        for _ in range(rng.choice([0, 2, 8, 12]) if kind != "many-small" else nfr + 10):
            ops.append("tick")
        return F.Case("gen%d-%s-%s-%s" % (i, kind, ckind, style), ops,
                      {"tags": ["kind:" + kind, "corrupt:" + ckind, "chunks:" + style], "style": style, "ckind": ckind})

    # ---- direct monitor: the property itself on the implementation trace
    def canon_impl(self, groups):
        return [[x for x in g if not x.startswith("READ ")] for g in groups]

    def monitor(self, case, groups, rc, err):
        fs = []
        if rc != 0:
            fs.append(F.Finding("crash", "implementation aborted (rc=%s): %s" % (rc, err[-600:])))
            return fs
        # buffered input: bytes the protocol layer took in minus the frames it handed on (judged while nothing was dropped or
        # reported): it has to stay below the fixed receive limit
        LIMIT = 2048
        inbuf, stop = 0, False
        for g in case.meta.get("raw_impl") or []:
            for x in g:
                if x.startswith("READ "):
                    inbuf += int(x.split()[1])
                elif x.startswith("DELIVER "):
                    inbuf -= 23 + int(x.split()[4])
                elif x == "RESTART" or x.startswith("LOG "):
                    stop = True
            if stop:
                break
            if inbuf >= LIMIT:
                fs.append(F.Finding("buffered-above-limit", "%d bytes are buffered in the protocol layer (limit %d) and no error was "
                                    "reported" % (inbuf, LIMIT)))
                break
        true_stream, accepted = b"", b""
        delivered, dropped, dead = [], False, False
        after_dead_delivery = False
        errors = []
        for op, g in zip(case.ops, groups):
            t = op.split()
            if t[0] == "recv" and not dead:
                b = bytes.fromhex(t[1]) if t[1] != "-" else b""
                true_stream += b
                if any(x == "LOG RECVOVF" for x in g):
                    dropped = True
                else:
                    accepted += b
            for x in g:
                if x.startswith("DELIVER "):
                    p = x.split()
                    if dead:
                        after_dead_delivery = True
                    ds = int(p[4])
                    pl = bytes.fromhex(p[5]) if p[5] != "-" else b""
                    delivered.append((int(p[1]), int(p[2]), int(p[3]), pl, ds))
                elif x == "RESTART":
                    dead = True
                elif x.startswith("LOG "):
                    errors.append(x[4:])
                elif x.startswith("CBMISMATCH") or x == "DELIVER-EMPTY":
                    fs.append(F.Finding("callback-mismatch", x))
        good, tail, consumed = good_frames(true_stream)
        want = [(v, r, c, p, len(p)) for (v, r, c, p) in good]
        if delivered != want[:len(delivered)]:
            k = 0
            while k < len(delivered) and k < len(want) and delivered[k] == want[k]:
                k += 1
            cls = "segment-dropped-splice" if dropped else "non-genuine-delivery"
            # re-delivery of an earlier packet is the C01 signature of the 32-bit wrap
            if k < len(delivered) and k > 0 and delivered[k][:4] == delivered[k - 1][:4]:
                cls = "segment-dropped-splice" if dropped else "redelivery"
            fs.append(F.Finding(cls, "delivery #%d is not frame #%d of the stream (delivered %d, stream has %d good frames, tail %s)"
                                % (k, k, len(delivered), len(want), tail)))
        if after_dead_delivery:
            fs.append(F.Finding("delivery-after-error", "a packet was delivered after the error/restart"))
        # error reporting: malformed tail fully received and read, nothing dropped -> must have restarted
        if not dropped and tail == "malformed" and not dead:
            # every byte read?  enough ticks are generated at the end of each case for <= 3 KiB streams
            nticks_end = 0
            for op in reversed(case.ops):
                if op == "tick":
                    nticks_end += 1
                else:
                    break
            if nticks_end >= 8 and len(true_stream) <= 2000 and len(delivered) == len(want):
                fs.append(F.Finding("malformed-not-reported", "malformed tail at offset %d was neither delivered nor reported" % consumed))
        if dropped and "RECVOVF" not in errors:
            fs.append(F.Finding("drop-not-reported", "segment dropped without log"))
        return fs

    def nontrivial_key(self, case, groups):
        nd = sum(1 for g in groups for x in g if x.startswith("DELIVER "))
        errs = tuple(sorted(set(x for g in groups for x in g if x.startswith("LOG ") or x == "RESTART")))
        if nd == 0 and not errs:
            return None
        return (min(nd, 6), errs, case.meta.get("style"), case.meta.get("ckind"))


SPEC = C01()
