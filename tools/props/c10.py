"""C10 — positioning tasks converge and the motor is never left powered indefinitely."""
import struct

import framework as F
from props.c03 import set_value, calcfg, chan_config, rs_cfg, fb_cfg

AUTOCAL = 0x1000
RECAL = 0x4000


class C10(F.Spec):
    pid = "C10"
    lean_module = "SuplaVerif.Props.C10"
    namespace = "SuplaVerif.C10"
    driver = "drv_dev"
    variant = "cfg"
    model_args = ["rstask"]
    rule = ("whole-device runs with the firmware's own 10 ms accounting timer and a physical shutter model (travel integrated from "
            "the relay levels, start-up delay, end-stop cut-off) or a sensor that always / never reports movement: (a) calibrated "
            "roller shutters and facade blinds (three tilt modes): every (start, target) pair class incl. the end stops, travel times "
            "1..60 s, time margins -1..100, one or two interrupting/re-targeting commands at random instants; (b) not calibrated, "
            "calibration discarded, zero times; (c) auto-calibration started by a task or by an authorised recalibrate, with each "
            "sensor behaviour, aborted or re-requested at random instants. Monitor: task ends with both outputs off and the reported "
            "position (tilt) within one point of the target, inside travel + margin + start delay; no output energised longer than "
            "10 min + one reporting period; auto-calibration ends with plausible times and 'fully open', or with the failure flag and "
            "the motor off. The model correspondence replays every accounting callback of roller-shutter runs through the Lean task "
            "model. Non-trivial: an output was energised; distinct = (kind, mode, target class, sensor, outcome).")
    assumptions = ["physical model: position integrated at the firmware's own queries (10 ms resolution); sensor = power drawn while moving",
                   "travel times up to 60 s in positioning runs (longer runs only in the power-limit scenarios)"]

    def cases(self, rng, tier):
        n = 60 if tier == "quick" else 600
        for i in range(n):
            yield self.positioning(rng, i)
        for i in range(n // 4):
            yield self.positioning(rng, 10000 + i, edge=True)
        for i in range(n // 4):
            yield self.positioning(rng, 20000 + i, zero=True)
        for i in range(n // 3):
            yield self.pass_through(rng, i)
        for i in range(n // 6):
            yield self.quick_retarget(rng, i)
        for i in range(n // 6):
            yield self.config_margin(rng, i)
        for i in range(n // 10):
            yield self.mode2_asym(rng, i)
        for i in range(8 if tier == "quick" else 48):
            yield self.autocal_rerequest(rng, i)
        for i in range(n // 3):
            yield self.uncalibrated(rng, i)
        for i in range(n // 3):
            yield self.autocal(rng, i)
        for i in range(n // 3):
            yield self.tilt_retarget(rng, i)
        for i in range(n // 2):
            yield self.acprobe(rng, i)
        for i in range(n):
            yield self.ticks(rng, i)
        for i in range(n):
            yield self.fbticks(rng, i)

    @staticmethod
    def run_until_idle(ops, total_ms, step=100):
        acc = 0
        for _ in range(max(1, total_ms // step)):
            ops.append("adv %d" % step)
            acc += step
            if acc >= 1000:
                ops.append("pingreply")     # the server answers every ping (keep-alive is C05's subject)
                acc = 0

    def positioning(self, rng, i, edge=False, zero=False):
        tt = 2 if edge else rng.choice([0, 0, 0, 1, 2, 3])
        opening = 100 * rng.randint(10, 600)
        closing = rng.choice([opening, 100 * rng.randint(10, 600)])
        tms = 0 if tt == 0 else rng.choice([300, 1500, 100 * rng.randint(2, 30)])
        if tt and tms * 2 >= min(opening, closing):
            tms = 100 * max(1, min(opening, closing) // 400)
        margin = rng.choice([-1, -1, 0, 1, 30, 100])
        startup = rng.choice([0, 0, 50, 200])
        p0 = rng.choice([0, 100, 50, rng.randint(0, 100)])
        t0 = 0 if tt == 0 else rng.choice([0, 100, rng.randint(0, 100)])
        if tt == 3 and p0 < 100:
            t0 = 0
        g = rng.choice([0, 100, 50, p0, rng.randint(0, 100), rng.randint(0, 100)])
        gt = -1 if tt == 0 else rng.choice([-1, 0, 100, rng.randint(0, 100)])
        if tt == 2 and (edge or rng.random() < 0.4):
            # targets whose tilt correction reaches past an end stop (position + travel of the tilting > 100 or < 0)
            tms = 100 * max(2, min(opening, closing) // rng.choice([500, 800, 1000]))
            if edge:
                p0, t0 = rng.randint(30, 70), rng.choice([0, 100, rng.randint(0, 100)])
            if rng.random() < 0.5:
                g, gt = rng.randint(88, 100), rng.randint(0, 60)
            else:
                g, gt = rng.randint(0, 12), rng.randint(40, 100)
        if zero:
            # a configured end-stop margin of 0 %: slow shutters sent to an end stop (nothing is added to the travel), and blinds
            # that stand at an end stop and are asked for another tilt (the output has to be energised all the same)
            margin = 0
            tt = rng.choice([0, 0, 1, 2, 3])
            if tt == 0:
                opening = closing = rng.choice([50000, 60000])
                tms, t0, gt = 0, 0, -1
                p0, g = rng.choice([30, 50, 70]), rng.choice([0, 100])
            else:
                opening = closing = 100 * rng.randint(50, 200)
                tms = 100 * rng.randint(10, 20)
                p0 = rng.choice([0, 100])
                t0 = rng.choice([0, 50, 100]) if not (tt == 3 and p0 < 100) else 0
                g, gt = p0, rng.choice([0, 100, 50])
        dur = ((opening // 100) << 16) | (closing // 100)
        ops = ["boot %d" % rng.choice([12345, 4294967295 - 20000000, rng.getrandbits(32) | 1]), "board rs1 0",
               "motor 3 %d %d %d" % (startup, opening, closing), "init", "calllog 1",
               "rstimes 0 %d %d %d %d" % (opening, closing, tms, tt), "rspos 0 %d %d" % (100 + 100 * p0, (100 + 100 * t0) if tt else 0),
               "rsmargin 0 %d" % margin, "physpos 0 %d" % p0, "adv 1500"]
        val = [10 + g, (10 + gt) if gt >= 0 else 0]
        ops.append("msg 110 " + set_value(7, 0, dur, val).hex())
        budget = int(max(opening, closing) * 2.3) + 4000
        cmds = [(g, gt)]
        if rng.random() < 0.35 and not zero:
            # a second command while the first is being executed
            self.run_until_idle(ops, rng.randint(100, max(200, budget // 3)))
            k = rng.choice(["retarget", "retarget", "stop", "updown"])
            if k == "retarget":
                g2 = rng.choice([0, 100, rng.randint(0, 100)])
                gt2 = -1 if tt == 0 else rng.choice([-1, rng.randint(0, 100)])
                ops.append("msg 110 " + set_value(8, 0, dur, [10 + g2, (10 + gt2) if gt2 >= 0 else 0]).hex())
                cmds.append((g2, gt2))
            elif k == "stop":
                ops.append("msg 110 " + set_value(8, 0, dur, [0]).hex())
                cmds.append(("stop", None))
            else:
                ops.append("msg 110 " + set_value(8, 0, dur, [rng.choice([1, 2])]).hex())
                cmds.append(("move", None))
        self.run_until_idle(ops, budget)
        ops += ["physshow 0"]
        return F.Case("pos%d" % i, ops, {"kind": "pos", "tt": tt, "opening": opening, "closing": closing, "tms": tms, "margin": margin,
                                         "p0": p0, "t0": t0, "cmds": cmds, "startup": startup, "noshrink": True,
                                         "tags": ["kind:pos", "tilt:%d" % tt, "target:%s" % ("end" if g in (0, 100) else "mid")]})

    def pass_through(self, rng, i):
        """a roller shutter moving on a plain 'down' / 'up' command is asked for the very position it is passing: it has to stop
        there (three requests around the estimate, one of them equals the reported value at that moment)"""
        full = rng.choice([10000, 20000, 30000])
        p0 = rng.choice([20, 30, 70, 80])
        down = p0 < 50
        w = rng.choice([2000, 3000, 4500])
        est = p0 + (1 if down else -1) * int(round(100.0 * (w - 0) / full))
        dur = ((full // 100) << 16) | (full // 100)
        g2 = max(1, min(99, est + rng.choice([-1, 0, 0, 1])))
        ops = ["boot %d" % rng.choice([12345, rng.getrandbits(32) | 1]), "board rs1 0", "motor 3 0 %d %d" % (full, full), "init", "calllog 1",
               "rstimes 0 %d %d 0 0" % (full, full), "rspos 0 %d 0" % (100 + 100 * p0), "rsmargin 0 -1", "physpos 0 %d" % p0, "adv 1500",
               "msg 110 " + set_value(7, 0, dur, [1 if down else 2]).hex()]
        self.run_until_idle(ops, w)
        ops.append("msg 110 " + set_value(8, 0, dur, [10 + g2, 0]).hex())
        self.run_until_idle(ops, int(full * 1.6) + 4000)
        ops += ["physshow 0"]
        return F.Case("pass%d" % i, ops, {"kind": "pos", "tt": 0, "opening": full, "closing": full, "tms": 0, "margin": -1, "p0": p0, "t0": 0,
                                          "cmds": [("move", None), (g2, -1)], "startup": 0, "noshrink": True,
                                          "tags": ["kind:pos", "tilt:0", "target:passing"]})

    def config_margin(self, rng, i):
        """the end-stop margin arrives the way the server sends it - in channel configurations (two in a row with different values,
        for roller shutters and for facade blinds) - and the task that follows is held to the margin configured last"""
        blind = i % 2 == 0
        tt = rng.choice([1, 2, 3]) if blind else 0
        full = 100 * rng.randint(200, 400)      # (slow enough for a wrong margin to stand out against the tilting)
        tms = 100 * rng.randint(10, 20) if blind else 0
        pairs = [(100, 0), (0, 100), (100, 5), (50, 0), (100, -1), (30, 1), (-1, 100)]
        m1, m2 = pairs[i % len(pairs)]
        p0 = rng.choice([30, 50, 70])
        t0 = 0 if not blind else rng.choice([0, 100]) if tt != 3 else 0
        # (towards the upper end stop the margin is run in full; towards the lower one the motor model's sensor ends the task)
        g = 0 if i % 4 != 3 else 100
        gt = -1 if not blind else (100 if g == 100 else 0)
        dur = ((full // 100) << 16) | (full // 100)
        wire = lambda m: -1 if m < 0 else m + 1
        def cfg(m):
            if blind:
                return chan_config(0, 900, 0, fb_cfg(full, full, tms, 0, 0, wire(m), 0, 180, tt, 0))
            return chan_config(0, 110, 0, rs_cfg(full, full, 0, 0, wire(m), 0))
        ops = ["boot 12345", "board rs1 0", "motor 3 0 %d %d" % (full, full), "init", "calllog 1",
               "rstimes 0 %d %d %d %d" % (full, full, tms, tt), "rspos 0 %d %d" % (100 + 100 * p0, (100 + 100 * t0) if tt else 0),
               "physpos 0 %d" % p0, "adv 500",
               "msg 690 " + cfg(m1).hex(), "adv 200", "msg 690 " + cfg(m2).hex(), "adv 1300",
               "msg 110 " + set_value(7, 0, dur, [10 + g, (10 + gt) if gt >= 0 else 0]).hex()]
        self.run_until_idle(ops, int(full * 2.3) + 4000)
        ops += ["physshow 0"]
        return F.Case("cfgmargin%d" % i, ops, {"kind": "pos", "tt": tt, "opening": full, "closing": full, "tms": tms, "margin": m2, "p0": p0, "t0": t0,
                                               "cmds": [(g, gt)], "startup": 0, "noshrink": True,
                                               "tags": ["kind:pos", "tilt:%d" % tt, "target:end", "margin:by-config"]})

    def mode2_asym(self, rng, i):
        """blinds that change position while tilting (mode 2) with very different opening and closing times: the correction for the
        tilting that ends the task is travelled with the time of ITS direction"""
        a, b = rng.choice([(10000, 30000), (30000, 10000), (8000, 40000), (40000, 8000)])
        opening, closing = a, b
        tms = 2000
        up = i % 2 == 0
        p0, t0 = (rng.choice([70, 80, 90]), 0) if up else (rng.choice([10, 20, 30]), 100)
        g, gt = (rng.choice([40, 50]), 100) if up else (rng.choice([50, 60]), 0)
        dur = ((opening // 100) << 16) | (closing // 100)
        ops = ["boot 12345", "board rs1 0", "motor 3 0 %d %d" % (opening, closing), "init", "calllog 1",
               "rstimes 0 %d %d %d 2" % (opening, closing, tms), "rspos 0 %d %d" % (100 + 100 * p0, 100 + 100 * t0),
               "rsmargin 0 -1", "physpos 0 %d" % p0, "adv 1500", "msg 110 " + set_value(7, 0, dur, [10 + g, 10 + gt]).hex()]
        self.run_until_idle(ops, int(max(opening, closing) * 1.5) + 6000)
        ops += ["physshow 0"]
        return F.Case("m2asym%d" % i, ops, {"kind": "pos", "tt": 2, "opening": opening, "closing": closing, "tms": tms, "margin": -1, "p0": p0,
                                            "t0": t0, "cmds": [(g, gt)], "startup": 0, "noshrink": True,
                                            "tags": ["kind:pos", "tilt:2", "target:mid", "asymmetric-times"]})

    def quick_retarget(self, rng, i):
        """requests in quick succession around the 1 s start delay: the shutter is stopped, a target on one side is requested inside
        the delay (its start is deferred), and before that start is due a target on the other side is requested - late enough to
        be carried out at once, or early enough to be deferred in its turn. The last request is the one that counts."""
        full = rng.choice([10000, 20000])
        p0 = rng.choice([40, 50, 60])
        dur = ((full // 100) << 16) | (full // 100)
        first_down = rng.random() < .5
        a, b = (rng.randint(80, 100), rng.randint(0, 25)) if first_down else (rng.randint(0, 20), rng.randint(75, 100))
        d1 = rng.choice([100, 300, 500, 700])
        d2 = rng.choice([905, 930, 960, 990, 800, 850]) if rng.random() < .8 else rng.choice([1100, 1500])
        ops = ["boot %d" % rng.choice([12345, rng.getrandbits(32) | 1]), "board rs1 0", "motor 3 0 %d %d" % (full, full), "init", "calllog 1",
               "rstimes 0 %d %d 0 0" % (full, full), "rspos 0 %d 0" % (100 + 100 * p0), "rsmargin 0 -1", "physpos 0 %d" % p0, "adv 1500",
               "msg 110 " + set_value(7, 0, dur, [1 if first_down else 2]).hex()]
        self.run_until_idle(ops, rng.choice([1200, 2000]))
        ops.append("msg 110 " + set_value(8, 0, dur, [0]).hex())
        ops.append("adv %d" % d1)
        ops.append("msg 110 " + set_value(9, 0, dur, [10 + a, 0]).hex())
        ops.append("adv %d" % max(1, d2 - d1 - 25))       # (each command costs the two 10 ms relay writes)
        ops.append("msg 110 " + set_value(10, 0, dur, [10 + b, 0]).hex())
        self.run_until_idle(ops, int(full * 1.6) + 4000)
        ops += ["physshow 0"]
        return F.Case("quick%d" % i, ops, {"kind": "pos", "tt": 0, "opening": full, "closing": full, "tms": 0, "margin": -1, "p0": p0, "t0": 0,
                                           "cmds": [("move", None), ("stop", None), (a, -1), (b, -1)], "startup": 0, "noshrink": True,
                                           "tags": ["kind:pos", "tilt:0", "target:quick-succession"]})

    def tilt_retarget(self, rng, i):
        """facade blind: a positioning task settles, then tilt-only requests (position 'keep'), the second one while the tilt
        phase of the first is still running"""
        tt = rng.choice([1, 1, 2, 3])
        opening = 100 * rng.randint(50, 300)
        closing = rng.choice([opening, 100 * rng.randint(50, 300)])
        tms = 100 * rng.randint(10, 30)
        if tms * 3 >= min(opening, closing):
            tms = 100 * max(2, min(opening, closing) // 400)
        p0, t0 = rng.randint(20, 80), rng.choice([0, 100, rng.randint(0, 100)])
        g = 100 if tt == 3 else rng.randint(20, 80)
        gt = rng.randint(0, 100)
        if tt == 3:
            p0, t0 = 100, rng.randint(0, 100)
        dur = ((opening // 100) << 16) | (closing // 100)
        ops = ["boot %d" % rng.choice([12345, rng.getrandbits(32) | 1]), "board rs1 0", "motor 3 0 %d %d" % (opening, closing), "init", "calllog 1",
               "rstimes 0 %d %d %d %d" % (opening, closing, tms, tt), "rspos 0 %d %d" % (100 + 100 * p0, 100 + 100 * t0),
               "rsmargin 0 -1", "physpos 0 %d" % p0, "adv 1500"]
        ops.append("msg 110 " + set_value(7, 0, dur, [10 + g, 10 + gt]).hex())
        cmds = [(g, gt)]
        self.run_until_idle(ops, int(max(opening, closing) * 1.4) + 3 * tms + 4000)
        for k in range(rng.randint(2, 3)):
            gtk = rng.choice([0, 100, rng.randint(0, 100), rng.randint(0, 100)])
            ops.append("msg 110 " + set_value(8, 0, dur, [255, 10 + gtk]).hex())
            cmds.append((-1, gtk))
            if k == 0 or rng.random() < .5:
                # the next request arrives while this one is tilting (or waiting for its start delay)
                self.run_until_idle(ops, rng.choice([100, 300, 500, 800, 1200]))
            else:
                self.run_until_idle(ops, 3 * tms + 3000)
        self.run_until_idle(ops, int(max(opening, closing) * 0.5) + 4 * tms + 6000)
        ops += ["physshow 0"]
        return F.Case("tiltre%d" % i, ops, {"kind": "pos", "tt": tt, "opening": opening, "closing": closing, "tms": tms, "margin": -1,
                                            "p0": p0, "t0": t0, "cmds": cmds, "startup": 0, "noshrink": True,
                                            "tags": ["kind:tiltre", "tilt:%d" % tt]})

    def uncalibrated(self, rng, i):
        kind = rng.choice(["zerotimes", "lostpos", "halfzero"])
        opening, closing = {"zerotimes": (0, 0), "lostpos": (20000, 20000), "halfzero": (rng.choice([0, 20000]), 0)}[kind]
        if kind == "halfzero" and opening == 0:
            closing = 20000
        sensor = rng.choice([1, 2, 3])
        ops = ["boot %d" % rng.choice([12345, rng.getrandbits(32) | 1]), "board rs1 0", "motor %d 100 15000 15000" % sensor, "init", "calllog 1",
               "rstimes 0 %d %d 0 0" % (opening, closing), "rspos 0 0 0", "physpos 0 50", "adv 1500"]
        dur = ((opening // 100) << 16) | (closing // 100)
        v = rng.choice([1, 2, 10 + rng.randint(0, 100), 3, 4, 5])
        ops.append("msg 110 " + set_value(7, 0, dur, [v]).hex())
        self.run_until_idle(ops, 640000, 1000)
        return F.Case("uncal%d" % i, ops, {"kind": "uncal", "sub": kind, "sensor": sensor, "noshrink": True,
                                           "tags": ["kind:uncal", "sub:" + kind, "sensor:%d" % sensor]})

    def acprobe(self, rng, i):
        """single calls of the real supla_esp_gpio_rs_autocalibrate at chosen (step, run times, sensor, stored closing time):
        every threshold of the step machine +-1 us"""
        F_, MN, MX = 300000, 500000, 590000000
        ops = ["boot 12345", "board rs1 0", "relflags 0 0 %d" % (AUTOCAL | RECAL), "relflags 1 0 %d" % (AUTOCAL | RECAL),
               "motor 3 0 17500 16000", "init", "rstimes 0 0 0 0 0", "rspos 0 0 0", "adv 1500", "rsmanual 0"]
        for _ in range(25):
            step = rng.choice([0, 1, 2, 3, 1, 2, 3, 4])
            tv = rng.choice([0, 1, F_ - 1, F_, F_ + 1, MN - 1, MN, MN + 1, 999, 1000, 17500000, 17500999, MX - 1, MX, MX + 1, 600000001])
            other = rng.choice([0, 0, 0, F_ - 1, F_, tv])
            up, down = (other, tv) if step == 2 else (tv, other)
            if rng.random() < .15:
                up, down = down, up
            ops.append("acprobe 0 %d %d %d %d %d" % (step, up, down, rng.choice([0, 1]), rng.choice([0, 700, 17500])))
        return F.Case("acprobe%d" % i, ops, {"kind": "acprobe", "noshrink": True, "tags": ["kind:acprobe"]})

    def autocal(self, rng, i):
        sensor = rng.choice([3, 3, 3, 1, 2, 5, 5])      # 5: works for the first two runs, then reports movement for ever
        up_ms = 100 * rng.randint(10, 400)
        down_ms = rng.choice([up_ms, 100 * rng.randint(10, 400)])
        startup = rng.choice([0, 100, 250])
        ops = ["boot %d" % rng.choice([12345, rng.getrandbits(32) | 1]), "board rs1 0", "relflags 0 0 %d" % (AUTOCAL | RECAL),
               "relflags 1 0 %d" % (AUTOCAL | RECAL), "motor %d %d %d %d" % (sensor, startup, up_ms, down_ms), "init", "calllog 1",
               "rstimes 0 0 0 0 0", "rspos 0 0 0", "physpos 0 %d" % rng.choice([0, 100, 40]), "adv 1500"]
        trig = rng.choice(["task", "task", "recal"])
        g = rng.choice([0, 100, rng.randint(0, 100)])
        if trig == "task":
            ops.append("msg 110 " + set_value(7, 0, 0, [10 + g]).hex())
        else:
            ops.append("msg 460 " + calcfg(1, 0, 8000, 1, 1000, struct.pack("<ii", 0, 0)).hex())
            g = 0
        budget = 3 * (up_ms + down_ms) + 10000 if sensor == 3 else 1300000 + (2 * (up_ms + down_ms) if sensor == 5 else 0)
        inter = None
        if rng.random() < 0.3:
            self.run_until_idle(ops, rng.randint(1, max(2, budget // 2000)) * 1000, 1000)
            inter = rng.choice(["stop", "recal", "recal", "task", "down"])
            if inter == "stop":
                ops.append("msg 110 " + set_value(8, 0, 0, [0]).hex())
            elif inter == "recal":
                # (both forms of the request: with the settings structure and without data)
                ops.append("msg 460 " + (calcfg(1, 0, 8000, 1, 1000, struct.pack("<ii", 0, 0)) if rng.random() < .5 else calcfg(1, 0, 8000, 1, 0, b"")).hex())
            elif inter == "task":
                ops.append("msg 110 " + set_value(8, 0, 0, [10 + rng.randint(0, 100)]).hex())
            else:
                ops.append("msg 110 " + set_value(8, 0, 0, [1]).hex())
        self.run_until_idle(ops, budget if inter is None else max(budget, 640000), 1000)
        ops.append("physshow 0")
        return F.Case("autocal%d" % i, ops, {"kind": "autocal", "sensor": sensor, "up_ms": up_ms, "down_ms": down_ms, "startup": startup,
                                             "inter": inter, "target": g, "noshrink": True,
                                             "tags": ["kind:autocal", "sensor:%d" % sensor, "inter:%s" % inter]})

    def autocal_rerequest(self, rng, i):
        """an auto-calibration is requested again (the form without data) at eight instants spread over the run - in its first, second
        and third step: it starts over and ends with plausible times or with the failure flag"""
        up_ms = down_ms = rng.choice([3000, 5000])
        ops = ["boot 12345", "board rs1 0", "relflags 0 0 %d" % (AUTOCAL | RECAL), "relflags 1 0 %d" % (AUTOCAL | RECAL),
               "motor 3 0 %d %d" % (up_ms, down_ms), "init", "calllog 1", "rstimes 0 0 0 0 0", "rspos 0 0 0", "physpos 0 40", "adv 1500",
               "msg 460 " + calcfg(1, 0, 8000, 1, 0, b"").hex()]
        total = 2 * up_ms + down_ms + 3000
        self.run_until_idle(ops, int(total * ((i % 8) + 0.5) / 8.0) // 100 * 100, 100)
        ops.append("msg 460 " + calcfg(1, 0, 8000, 1, 0, b"").hex())
        self.run_until_idle(ops, 3 * (up_ms + down_ms) + 20000, 1000)
        ops.append("physshow 0")
        return F.Case("acagain%d" % i, ops, {"kind": "autocal", "sensor": 3, "up_ms": up_ms, "down_ms": down_ms, "startup": 0,
                                             "inter": "recal", "target": 0, "noshrink": True,
                                             "tags": ["kind:autocal", "sensor:3", "inter:recal-again"]})

    def ticks(self, rng, i):
        """roller shutter, constant sensor, hand-driven accounting callbacks: every callback is replayed through the Lean task model"""
        while True:
            fo = rng.choice([0, 100 * rng.randint(5, 600), 100 * rng.randint(5, 100)])
            fc = rng.choice([fo, 0, 100 * rng.randint(5, 600)])
            m = rng.choice([-1, -1, 0, 1, 5, 29, 30, 50, 100])
            mm = 110 if m < 0 else m
            # the C code computes (int)(F * (1.0 * margin / 100.0)) in doubles: keep to pairs where that is the integer quotient
            if all(int(F_ * (1.0 * mm / 100.0)) == F_ * mm // 100 for F_ in (fo, fc)):
                break
        sensor = rng.choice([1, 2])
        p = rng.choice([0, 100, 10100, 5000, 130, 10070, rng.randint(100, 10100)])
        ops = ["boot %d" % rng.choice([12345, 4294967295 - 20000000, rng.getrandbits(32) | 1]), "board rs1 0", "motor %d 0 1 1" % sensor,
               "init", "calllog 1", "rslog 1", "rstimes 0 %d %d 0 0" % (fo, fc), "rspos 0 %d 0" % p, "rsmargin 0 %d" % m, "rsmanual 0", "adv 1500",
               "rstick 0 10000", "rstick 0 0"]
        dur = ((fo // 100) << 16) | (fc // 100)
        longrun = rng.random() < 0.15
        for _ in range(rng.randint(1, 3)):
            c = rng.choice(["task", "task", "task", "up", "down", "stop"])
            if c == "task":
                g = rng.choice([0, 100, 50, rng.randint(0, 100)])
                ops.append("msg 110 " + set_value(7, 0, dur, [10 + g]).hex())
            else:
                ops.append("msg 110 " + set_value(7, 0, dur, [{"up": 2, "down": 1, "stop": 0}[c]]).hex())
            n = rng.randint(3, 60)
            for _ in range(n):
                if longrun:
                    dt = rng.choice([5000000, 3000000, 4000000])     # (longer gaps would trip the keep-alive: C05)
                else:
                    dt = rng.choice([10000, 10000, 10000, 9000, 30000, 100000, 250000, 1000000, rng.randint(1000, 250000)])
                ops.append("rstick 0 %d" % dt)
                if longrun:
                    ops.append("pingreply")      # the server answers the keep-alive pings of a long run
            if c in ("task", "down") and fc >= 5000 and p < 9000 and not longrun and rng.random() < .4:
                # requests for the position the shutter is just passing, while it is on its way further down: one of them
                # meets the reported position exactly
                first = max(0, (p - 100) // 100)
                for k in range(first, min(first + 8, 100)):
                    ops.append("msg 110 " + set_value(7, 0, dur, [10 + k]).hex())
                    for _ in range(rng.randint(1, 3)):
                        ops.append("rstick 0 %d" % rng.choice([10000, 10000, 50000, fc * 10 // 2]))
            # stop and rest for longer than the start delay before the next command (reversals and delays: C08)
            ops += ["msg 110 " + set_value(7, 0, dur, [0]).hex(), "rstick 0 10000", "adv 1100", "rstick 0 10000"]
        return F.Case("ticks%d" % i, ops, {"kind": "ticks", "fo": fo, "fc": fc, "margin": mm, "sensor": sensor, "noshrink": True,
                                           "tags": ["kind:ticks", "margin:%d" % mm, "sensor:%d" % sensor]})

    def fbticks(self, rng, i):
        """facade blind, constant sensor, hand-driven accounting callbacks: every callback is replayed through the Lean blind model"""
        while True:
            tt = rng.choice([1, 1, 2, 3])
            fo = 100 * rng.randint(30, 400)
            fc = rng.choice([fo, 100 * rng.randint(30, 400)])
            tms = 100 * rng.randint(3, 25)
            if tms * 3 >= min(fo, fc):
                continue
            m = rng.choice([-1, -1, 0, 1, 30, 50, 100])
            mm = 110 if m < 0 else m
            if all(int(F_ * (1.0 * mm / 100.0)) == F_ * mm // 100 for F_ in (fo, fc)):
                break
        sensor = rng.choice([1, 2])
        p = rng.choice([100, 10100, 5000, rng.randint(100, 10100)])
        tl = rng.choice([100, 10100, rng.randint(100, 10100)])
        if tt == 3 and p < 10100:
            tl = 100
        ops = ["boot %d" % rng.choice([12345, rng.getrandbits(32) | 1]), "board rs1 0", "motor %d 0 1 1" % sensor,
               "init", "calllog 1", "rslog 1", "rstimes 0 %d %d %d %d" % (fo, fc, tms, tt), "rspos 0 %d %d" % (p, tl), "rsmargin 0 %d" % m, "rsmanual 0", "adv 1500",
               "rstick 0 10000", "rstick 0 0"]
        dur = ((fo // 100) << 16) | (fc // 100)
        for _ in range(rng.randint(1, 3)):
            c = rng.choice(["task", "task", "task", "tilt", "tilt", "up", "down"])
            if c == "task":
                g = rng.choice([0, 100, 50, rng.randint(0, 100)])
                gt = rng.choice([-1, 0, 100, rng.randint(0, 100)])
                ops.append("msg 110 " + set_value(7, 0, dur, [10 + g, (10 + gt) if gt >= 0 else 0]).hex())
            elif c == "tilt":
                ops.append("msg 110 " + set_value(7, 0, dur, [255, 10 + rng.randint(0, 100)]).hex())
            else:
                ops.append("msg 110 " + set_value(7, 0, dur, [{"up": 2, "down": 1}[c]]).hex())
            for _ in range(rng.randint(3, 80)):
                ops.append("rstick 0 %d" % rng.choice([10000, 10000, 10000, 9000, 30000, 100000, 250000, rng.randint(1000, 250000)]))
                if rng.random() < .04:
                    # a new request while the previous one is carried out
                    if rng.random() < .5:
                        ops.append("msg 110 " + set_value(7, 0, dur, [255, 10 + rng.randint(0, 100)]).hex())
                    else:
                        ops.append("msg 110 " + set_value(7, 0, dur, [10 + rng.randint(0, 100), rng.choice([0, 10 + rng.randint(0, 100)])]).hex())
            ops += ["msg 110 " + set_value(7, 0, dur, [0]).hex(), "rstick 0 10000", "adv 1100", "rstick 0 10000"]
        return F.Case("fbticks%d" % i, ops, {"kind": "fbticks", "fo": fo, "fc": fc, "margin": mm, "sensor": sensor, "tt": tt, "tms": tms, "noshrink": True,
                                             "tags": ["kind:fbticks", "tilt:%d" % tt]})


    def derive_fb(self, case, raw):
        me = case.meta
        ops = ["fbcfg %d %d %d %d %d %d" % (me["fo"], me["fc"], me["margin"], 1 if me["sensor"] == 1 else 0, me["tt"], me["tms"])]
        exp = [[]]
        last_t = None; started = False; init_line=None
        for op, g in zip(case.ops, raw):
            t = op.split()
            tick = [x for x in g if x.startswith("RSTICK ")]
            if t[0] == "rstick" and tick:
                f = dict(p.split("=") for p in tick[0].split()[2:])
                tm = int(f["t0"])
                rel = 2 if f["up"] == "1" else (1 if f["down"] == "1" else 0)
                if not started:
                    init_line = "fbstate %s %s %s %s %d %s %s" % (f["pos"], f["tilt"], f["upT"], f["downT"], rel, f["ts"], f["dir"])
                else:
                    if any(x.startswith("TRIGFIRE") for x in g):
                        ops.append("fbfire"); exp.append([])
                    ops.append("fbtick %d" % (tm - last_t))
                    exp.append(["FT pos=%s tilt=%s rel=%d ts=%s dir=%s upT=%s downT=%s" % (f["pos"], f["tilt"], rel, f["ts"], f["dir"], f["upT"], f["downT"])])
                last_t = tm
            elif t[0] == "msg" and t[1] == "110":
                if not started:
                    ops.append(init_line); exp.append([]); started = True
                pl = bytes.fromhex(t[2]); v, tl = pl[9], pl[10]
                gt = tl - 10 if 10 <= tl <= 110 else -1
                if 10 <= v <= 110:
                    ops.append("fbtask %d %d" % (v - 10, gt))
                elif v == 255:
                    ops.append("fbtask -1 %d" % gt)
                else:
                    ops.append("fbmove %d" % {1: 1, 2: 2}.get(v, 0))
                exp.append([])
        return "\n".join(ops) + "\n", exp


    def fill_meta(self, case):
        """replays carry no meta: recompute it from the ops"""
        if "kind" in case.meta:
            return
        me = {"kind": "pos", "cmds": [], "inter": None, "tt": 0, "tms": 0, "margin": -1, "startup": 0, "p0": 0, "t0": 0,
              "opening": 0, "closing": 0, "sensor": 3, "up_ms": 0, "down_ms": 0, "target": 0, "sub": None}
        auto = False
        nmsg = 0
        for op in case.ops:
            t = op.split()
            if t[0] == "motor":
                me.update(sensor=int(t[1]), startup=int(t[2]), up_ms=int(t[3]), down_ms=int(t[4]))
            elif t[0] == "relflags" and int(t[3]) & AUTOCAL:
                auto = True
            elif t[0] == "rstimes":
                me.update(opening=int(t[2]), closing=int(t[3]), tms=int(t[4]), tt=int(t[5]))
            elif t[0] == "rspos":
                me.update(p0=max(0, (int(t[2]) - 100) // 100), t0=max(0, (int(t[3]) - 100) // 100))
            elif t[0] == "rsmargin":
                me["margin"] = int(t[2])
            elif t[0] == "msg":
                nmsg += 1
                pl = bytes.fromhex(t[2])
                if t[1] == "110":
                    v, tl = pl[9], pl[10]
                    if 10 <= v <= 110:
                        me["cmds"].append((v - 10, tl - 10 if 10 <= tl <= 110 else -1))
                        me["target"] = v - 10
                    elif v == 0:
                        me["cmds"].append(("stop", None))
                    else:
                        me["cmds"].append(("move", None))
                if t[1] == "690" and len(pl) >= 20:
                    func = int.from_bytes(pl[1:5], "little")
                    tm = int.from_bytes(pl[8 + (14 if func in (900, 950) else 10):8 + (14 if func in (900, 950) else 10) + 1], "little", signed=True)
                    if tm == -1 or 1 <= tm <= 101:
                        me["margin"] = tm if tm < 0 else tm - 1
                    nmsg -= 1
                if nmsg > 1:
                    me["inter"] = "cmd"
        if any(o.startswith("acprobe ") for o in case.ops):
            me["kind"] = "acprobe"
        elif auto:
            me["kind"] = "autocal"
        elif me["opening"] == 0 or me["closing"] == 0 or (case.ops and any(o.startswith("rspos 0 0 ") for o in case.ops)):
            me["kind"] = "uncal"
        case.meta.update(me)

    def derive_model(self, case, raw):
        self.fill_meta(case)
        me = case.meta
        if me.get("kind") == "fbticks":
            return self.derive_fb(case, raw)
        if me.get("kind") == "acprobe":
            ops, exp = [], []
            for op, g in zip(case.ops, raw):
                if op.startswith("acprobe "):
                    t = op.split()
                    ops.append("acprobe " + " ".join(t[2:]))
                    ac = [x for x in g if x.startswith("AC ")]
                    # the relay request the call made (set_relay hook), before the probe's own clean-up request
                    sr = [x.split()[2] for x in g if x.startswith("SETRELAY ")]
                    k = g.index(ac[0]) if ac else 0
                    before = [x.split()[2] for x in g[:k] if x.startswith("SETRELAY ")]
                    exp.append([ac[0] + " " + (before[0] if before else "-")] if ac else [])
            return "\n".join(ops) + "\n", exp
        if me.get("kind") != "ticks":
            return "", []
        ops = ["cfg %d %d %d %d" % (me["fo"], me["fc"], me["margin"], 1 if me["sensor"] == 1 else 0)]
        exp = [[]]
        last_t = None
        started = False
        for op, g in zip(case.ops, raw):
            t = op.split()
            tick = [x for x in g if x.startswith("RSTICK ")]
            if t[0] == "rstick" and tick:
                f = dict(p.split("=") for p in tick[0].split()[2:])
                tm = int(f["t0"])
                rel = 2 if f["up"] == "1" else (1 if f["down"] == "1" else 0)
                if not started:
                    # adopt the implementation's state at the last callback before the first command
                    ops_state = "state %s %s %s %d %s 0 %s" % (f["pos"], f["upT"], f["downT"], rel, f["ts"], f["dir"])
                    init_line = ops_state
                else:
                    if any(x.startswith("TRIGFIRE") for x in g):
                        ops.append("fire")       # the delayed trigger ran between the two callbacks
                        exp.append([])
                    ops.append("tick %d" % (tm - last_t))
                    exp.append(["RT pos=%s rel=%d ts=%s dir=%s upT=%s downT=%s" % (f["pos"], rel, f["ts"], f["dir"], f["upT"], f["downT"])])
                last_t = tm
            elif t[0] == "msg" and t[1] == "110":
                if not started:
                    ops.append(init_line)
                    exp.append([])
                    started = True
                v = bytes.fromhex(t[2])[9]
                if 10 <= v <= 110:
                    ops.append("task %d" % (v - 10))
                else:
                    ops.append("move %d" % {1: 1, 2: 2}.get(v, 0))
                exp.append([])
        return "\n".join(ops) + "\n", exp

    # ---- trace facts
    def facts(self, case, raw):
        """energised intervals [(t_on, t_off or None)], CHG histories, last reported value"""
        now = 0
        on = {}
        ivals = []
        hist = {"RsPos": [], "RsTilt": [], "RsTask": [], "RsFlags": [], "AutoCalOpen": [], "AutoCalClose": []}
        reported = []
        cmd_t = []
        any_on_since = None
        levels = {}
        for op, g in zip(case.ops, raw):
            t = op.split()
            for x in g:
                p = x.split()
                if p[0] == "NOW":
                    now = int(p[1])
                    if t[0] == "msg":
                        cmd_t.append(now)
                elif p[0] == "GPIO" and p[1] in ("1", "2"):
                    tm = int(p[3])
                    levels[p[1]] = int(p[2])
                    if any(levels.values()):
                        if any_on_since is None:
                            any_on_since = tm
                    else:
                        if any_on_since is not None:
                            ivals.append((any_on_since, tm))
                            any_on_since = None
                elif p[0] == "CHG" and p[1] in hist and p[2] == "0":
                    hist[p[1]].append((now, int(p[3])))
                elif p[0] == "CALL" and p[1] == "value" and p[2] == "0":
                    v = int(p[3])
                    reported.append((now, v - 256 if v > 127 else v))
            if t[0] == "adv":
                now += int(t[1]) * 1000
        if any_on_since is not None:
            ivals.append((any_on_since, None))
        return ivals, hist, reported, cmd_t, levels, now

    def monitor(self, case, groups, rc, err):
        if rc != 0:
            return [F.Finding("crash", "implementation aborted (rc=%s): %s" % (rc, err[-900:]))]
        raw = case.meta.get("raw_impl") or []
        self.fill_meta(case)
        me = case.meta
        fs = []
        if me["kind"] == "acprobe":
            return fs           # single calls with hand-set fields: compared with the model only
        ivals, hist, reported, cmd_t, levels, end = self.facts(case, raw)
        # (1) nothing stays energised longer than 10 min + a reporting period (+ one accounting period)
        LIMIT = 600 * 1000000 + 200000 + 20000
        for a, b in (ivals if me["kind"] not in ("ticks", "fbticks") else []):     # (hand-driven callbacks may be seconds apart)
            if b is None:
                if end - a > LIMIT:
                    fs.append(F.Finding("output-left-energised", "an output was switched on at %.1f s and is still on %.1f s later" % (a / 1e6, (end - a) / 1e6)))
            elif b - a > LIMIT:
                if me["kind"] == "autocal" and b - a <= LIMIT + 2000000:
                    fs.append(F.Finding("power-limit-exceeded-by-startup-window",
                                        "auto-calibration capable shutter: an output stayed on for %.2f s (limit 600.2 s): run time is not "
                                        "counted until the sensor reports movement, for up to 2 s after switch-on" % ((b - a) / 1e6)))
                else:
                    fs.append(F.Finding("output-energised-too-long", "an output stayed on for %.1f s" % ((b - a) / 1e6)))
        # (1b) the time limit is the end: an output that was switched off by it is not energised again by the device itself
        # (two runs to the limit back to back are twenty minutes of power with a second's pause)
        if me["kind"] not in ("ticks", "fbticks"):
            for k, (a, b) in enumerate(ivals):
                if b is not None and b - a >= 598 * 1000000:
                    later = [(a2, b2) for a2, b2 in ivals[k + 1:] if not any(b <= c <= a2 for c in cmd_t)]
                    if later:
                        fs.append(F.Finding("restarted-after-time-limit", "an output was switched off by the ten-minute limit after %.1f s and "
                                            "%.1f s later the device energised an output again without a new command" % ((b - a) / 1e6, (later[0][0] - b) / 1e6)))
                        break
        if me["kind"] == "pos":
            last = me["cmds"][-1]
            still_on = any(levels.values())
            task = hist["RsTask"][-1][1] if hist["RsTask"] else 0
            if last[0] not in ("stop", "move"):
                g, gt = last
                keep = g == -1
                if keep:        # a tilt-only request keeps the position target of the task before it
                    g = next((c[0] for c in reversed(me["cmds"][:-1]) if c[0] not in ("stop", "move", -1)), me["p0"])
                if still_on:
                    fs.append(F.Finding("task-not-finished", "target %s/%s: after the whole budget an output is still on (task state %d)" % (g, gt, task // 1000000)))
                else:
                    pos = hist["RsPos"][-1][1] if hist["RsPos"] else 100 + 100 * me["p0"]
                    rp = (pos - 100 + 50) // 100
                    # one point + the travel of the 10 ms accounting periods between "target reached" and "output off" (the
                    # granularity of the estimate): one for a roller shutter; two for a blind, whose task leaves the output on
                    # in the callback that ends the position phase and switches over in the next one
                    periods = 2 if me["tt"] else 1
                    tol = 1 + 100.0 * 10 * periods / (min(me["opening"], me["closing"]) - (me["tms"] if me["tt"] in (1, 3) else 0))
                    had_tilt = any(c[1] is not None and c[1] >= 0 for c in me["cmds"])
                    if me["tt"] in (1, 2, 3) and had_tilt:
                        # tilting itself moves the position in mode 2; modes 1/3 keep it (a re-target without a tilt
                        # keeps the tilt of the task it replaces)
                        if me["tt"] == 2:
                            corr = min(me["opening"], me["closing"])
                            if len(me["cmds"]) == 1 and me["opening"] != me["closing"] and g != me["p0"] and \
                                    "asymmetric-times" in me.get("tags", []):
                                # (only for the family built for it: mid-range targets, start tilt at the end the travel leaves it at)
                                # one command: the tilting that ends the task runs against the main travel (up, then the slats are
                                # turned down with the closing time - and the other way round): that is the travel it causes
                                corr = me["closing"] if g < me["p0"] else me["opening"]
                            tol += (int(100.0 * me["tms"] / corr) + 1) * (sum(1 for c in me["cmds"] if c[0] == -1) + 1)
                    if abs(rp - g) > tol:
                        fs.append(F.Finding("target-missed", "mode %d: target position %d, stored %.2f %% (reported %d)" % (me["tt"], g, (pos - 100) / 100.0, rp)))
                    if me["tt"] and gt is not None and gt >= 0 and not (me["tt"] == 3 and g != 100):
                        tilt = hist["RsTilt"][-1][1] if hist["RsTilt"] else 100 + 100 * me["t0"]
                        rt = (tilt - 100 + 50) // 100
                        # (the same two accounting periods as for the position: the callback that sees the tilt reached and the
                        # one that accounts the time up to the switch-off)
                        if abs(rt - gt) > 1 + 100.0 * 10 * periods / me["tms"]:
                            fs.append(F.Finding("tilt-target-missed", "mode %d: target tilt %d (position %d), stored tilt %.2f %%" % (me["tt"], gt, g, (tilt - 100) / 100.0)))
                    # time bound: travel needed + end-stop margin + start delays + tilt corrections
                    if ivals and cmd_t:
                        t_cmd = cmd_t[-1]
                        t_off = max(b for a, b in ivals if b is not None)
                        # travel needed (from where the shutter was when the last command arrived) + the task's end-stop
                        # margin of that direction + start/reversal delays + tilting; a roller shutter moves one way only
                        if me["tt"] == 0 and len(me["cmds"]) == 1:
                            start = 100 + 100 * me["p0"]
                            goal = 100 + 100 * g
                            Fdir = (me["opening"] if goal < start else me["closing"]) * 1000.0
                            travel = abs(goal - start) / 10000.0 * Fdir
                            meff = 5 if me["margin"] < 0 else me["margin"]
                            if me["margin"] >= 0 and me["margin"] < 50 and not (me.get("sensor", 3) == 3 and me.get("aligned", True)):
                                meff_hi = 50        # while the sensor reports movement the margin is at least 50 %
                            else:
                                # (a motor that stops at its end stop and a sensor that shows it: the configured margin counts)
                                meff_hi = meff
                            mt = Fdir * meff_hi / 100.0 if g in (0, 100) else 0
                            bound = travel + mt + 1300000 + 0.02 * Fdir + me["startup"] * 1000
                            if t_off > t_cmd and t_off - t_cmd > bound:
                                fs.append(F.Finding("task-too-slow", "roller shutter %d -> %d %%: task took %.2f s, travel %.2f s + margin %.2f s "
                                                    "(bound %.2f s)" % (me["p0"], g, (t_off - t_cmd) / 1e6, travel / 1e6, mt / 1e6, bound / 1e6)))
                        else:
                            Fmax = max(me["opening"], me["closing"]) * 1000.0
                            m = 1.10 if me["margin"] < 0 else max(0.05, me["margin"] / 100.0)
                            bound = Fmax * (1.0 + max(m, 0.5)) + 3 * me["tms"] * 1000.0 + 2500000
                            if t_off > t_cmd and t_off - t_cmd > bound:
                                fs.append(F.Finding("task-too-slow", "task took %.1f s, bound %.1f s" % ((t_off - t_cmd) / 1e6, bound / 1e6)))
                            if me["tt"] and len(me["cmds"]) == 1 and g in (0, 100) and "margin:by-config" in me.get("tags", []) and \
                                    me.get("sensor", 3) == 3:
                                # a blind sent to an end stop by one command, the margin configured by the server, a motor that stops at
                                # the end stop: travel + the tilting (twice over: before and after the travel) + the configured margin
                                start = 100 + 100 * me["p0"]
                                goal = 100 + 100 * g
                                Fdir = (me["opening"] if goal < start else me["closing"]) * 1000.0
                                travel = abs(goal - start) / 10000.0 * Fdir
                                meff = 5 if me["margin"] < 0 else me["margin"]
                                bound2 = travel + Fdir * meff / 100.0 + 2 * me["tms"] * 1000.0 + 1300000 + 0.02 * Fdir
                                if t_off > t_cmd and t_off - t_cmd > bound2:
                                    fs.append(F.Finding("task-too-slow", "blind (mode %d) %d -> %d %% with the margin %d %% configured by the server: "
                                                        "task took %.2f s, travel %.2f s + margin %.2f s + tilting (bound %.2f s)"
                                                        % (me["tt"], me["p0"], g, me["margin"], (t_off - t_cmd) / 1e6, travel / 1e6,
                                                           Fdir * meff / 100.0 / 1e6, bound2 / 1e6)))
            else:
                if last[0] == "stop" and still_on:
                    fs.append(F.Finding("stop-ignored", "outputs still on after a stop command"))
        elif me["kind"] in ("ticks", "fbticks"):
            pass
        elif me["kind"] == "autocal":
            flags = hist["RsFlags"][-1][1] if hist["RsFlags"] else 0
            still_on = any(levels.values())
            ao = hist["AutoCalOpen"][-1][1] if hist["AutoCalOpen"] else 0
            ac = hist["AutoCalClose"][-1][1] if hist["AutoCalClose"] else 0
            pos = hist["RsPos"][-1][1] if hist["RsPos"] else 0
            if still_on:
                fs.append(F.Finding("autocal-motor-left-on", "outputs on at the end of the run (flags %x)" % flags))
            if me["inter"] is None or (me["inter"] == "recal" and me["sensor"] == 3):
                # (a calibration that was requested again while it ran starts over and has to end like any other)
                ok_times = ao > 0 and ac > 0
                failed = bool(flags & 0x2)
                if not ok_times and not failed:
                    fs.append(F.Finding("autocal-no-outcome", "auto-calibration ended with neither stored times nor the failure flag "
                                        "(open %d close %d flags %x pos %d)" % (ao, ac, flags, pos)))
                if ok_times and me["sensor"] == 3:
                    slack = me["startup"] + 400
                    if abs(ao - me["up_ms"]) > slack + me["up_ms"] * 0.02 or abs(ac - me["down_ms"]) > slack + me["down_ms"] * 0.02:
                        fs.append(F.Finding("autocal-implausible-times", "measured open %d close %d ms, physical %d / %d ms" % (ao, ac, me["up_ms"], me["down_ms"])))
                if ok_times and failed:
                    fs.append(F.Finding("autocal-both-outcomes", "times stored and failure flag set"))
        return fs

    def nontrivial_key(self, case, groups):
        raw = case.meta.get("raw_impl") or []
        ivals, hist, reported, cmd_t, levels, end = self.facts(case, raw)
        if not ivals:
            return None
        self.fill_meta(case)
        me = case.meta
        flags = hist["RsFlags"][-1][1] if hist["RsFlags"] else 0
        return (me["kind"], me.get("tt"), me.get("sensor"), me.get("sub"), me.get("inter"), len(ivals), flags,
                str((me.get("cmds") or [(None, None)])[-1][0] in (0, 100)))


SPEC = C10()
