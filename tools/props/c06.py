"""C06 — relay output follows the last command and the server is told the truth."""
import struct

import framework as F
from props.c03 import set_value, group_value

LO = 0x10
RESTORE = 0x02
CD = 0x0080   # placeholder, replaced by the probed SUPLA_CHANNEL_FLAG_COUNTDOWN_TIMER_SUPPORTED


class C06(F.Spec):
    pid = "C06"
    lean_module = "SuplaVerif.Props.C06"
    namespace = "SuplaVerif.C06"
    driver = "drv_dev"
    variant = "cfg"
    model_args = ["relay"]
    rule = ("histories over {server set 0/1/other with duration 0/short/long, set for an unknown channel, channel-group set, "
            "mono/bistable button and motion-sensor edges, time advances over the countdown expiries, staircase configuration} on "
            "1..8 relays, each relay with a random combination of active-low wiring, restore and countdown capability. Every "
            "relay_hi request (hook) with the pin level, the value report and the set-value result that follow it is compared "
            "with the Lean model; monitor: after every event the last reported value of a channel equals the level read from the "
            "pin, each set-value request gets exactly one result with its sender id and a truthful success flag, the output "
            "equals the last command's request, accepted calls reach the wire. Non-trivial: a relay changed or a result was "
            "issued; distinct = (board flags, command kinds, outcomes).")
    assumptions = ["device registered throughout (C04 covers the unregistered phases)",
                   "roller-shutter channels are C08-C10's subject; boards here have plain relays only",
                   "button gesture semantics (which edge toggles) are checked for mono/bistable buttons and motion sensors of the test board"]

    def cdflag(self):
        if not hasattr(self, "_cd"):
            import extract
            self._cd = int(extract.run_probe("c06_cd", 'P("cd", SUPLA_CHANNEL_FLAG_COUNTDOWN_TIMER_SUPPORTED);', includes_c=["proto.h"])["cd"])
        return self._cd

    def cases(self, rng, tier):
        self.cdflag()
        # witness of the recorded finding: timed command on a countdown-capable channel = 3 calls into the 2-slot queue
        yield F.Case("witness-burst", ["board relay1 0", "relflags 0 0 %d" % self.cdflag(), "init", "calllog 1", "sentbytes 1", "relstate",
                                       "msg 110 " + set_value(78, 0, 5000, [1]).hex(), "adv 100", "relstate"],
                     {"n": 1, "flags": [0], "chflags": [self.cdflag()], "intypes": [2], "kind": "witness", "tags": ["kind:witness"]})
        for i in range(120 if tier == "quick" else 1200):
            yield self.gen(rng, i)
        # a device that registers for real (the registration message is built, the channel flags are taken over from it) on a board
        # whose relay table and channel list are ordered differently: channel 1 (countdown capable, pin 3) is switched on, then
        # 'off for d': it is on again when d has passed; channel 2 (pin 4, active low, no countdown) stays off after 'off for d'
        from props.c04 import reg_result
        for k, d in enumerate([500, 1000, 3000] if tier == "quick" else [300, 500, 1000, 2000, 3000, 5000]):
            ops = ["board mixed 0", "init -1", "sentbytes 1", "calllog 1", "netstart", "gotip", "dnsfound 10.0.0.7", "tcpup", "fire iterate",
                   "recv " + reg_result(3, 120).hex(), "adv 200",
                   "msg 110 " + set_value(5, 1, 0, [1]).hex(), "adv 300", "msg 110 " + set_value(6, 2, 0, [1]).hex(), "adv 300",
                   "msg 110 " + set_value(7, 1, d, [0]).hex(), "adv 100", "msg 110 " + set_value(8, 2, d, [0]).hex()]
            self.adv(ops, d + 1500)
            yield F.Case("regflags%d" % k, ops, {"n": 0, "flags": [], "chflags": [], "intypes": [], "kind": "regflags", "d": d,
                                                  "tags": ["kind:regflags"]})

    @staticmethod
    def adv(ops, ms):
        """advance in steps of at most 1 s, the server answering every ping (keep-alive is C05's subject)"""
        while ms > 0:
            st = min(ms, 1000)
            ops.append("adv %d" % st)
            ops.append("pingreply")
            ms -= st

    def gen(self, rng, i):
        n = rng.choice([1, 2, 2, 3, 4, 8])
        flags = [rng.choice([0, LO, RESTORE, LO | RESTORE]) for _ in range(n)]
        chflags = [rng.choice([0, self.cdflag()]) for _ in range(n)]
        ni = min(n, 7)
        intypes = [rng.choice([2, 2, 4, 8]) for _ in range(ni)]
        ops = ["board relay%d 0" % n]
        for k in range(n):
            ops.append("relflags %d %d %d" % (k, flags[k], chflags[k]))
        for k in range(ni):
            ops.append("inlevel %d 1" % (9 + k))      # inputs released at power-on (pull-up)
            ops.append("intype %d %d" % (k, intypes[k]))
            if k == 0:
                ops.append("inflags 0 1")     # not the config button here (C12 covers it)
        ops += ["init", "calllog 1", "sentbytes 1"]
        stair = rng.random() < 0.15
        if stair:
            ops.append("staircase %d %d %d" % (rng.randrange(n), rng.choice([500, 2000]), rng.choice([0, 1])))
        self.adv(ops, 1500)   # leave the silent start-up period of the inputs (motion-sensor relays are set from the input)
        ops.append("relstate")
        lvl = [1] * ni
        for _ in range(rng.randint(3, 14)):
            a = rng.choice(["set", "set", "set", "timed", "timed", "unknown", "group", "button", "button", "adv", "advlong", "rswitch"])
            ch = rng.randrange(n)
            if a == "set":
                ops.append("msg 110 " + set_value(rng.randint(1, 1 << 20), ch, 0, [rng.choice([0, 1, 1, 0, 2, 255, 77])]).hex())
            elif a == "timed":
                ops.append("msg 110 " + set_value(rng.randint(1, 1 << 20), ch, rng.choice([300, 1000, 5000, 60000]), [rng.choice([0, 1, 1])]).hex())
            elif a == "unknown":
                ops.append("msg 110 " + set_value(rng.randint(1, 1 << 20), rng.choice([n, 9, 200, 255, 255]), 0, [1]).hex())
            elif a == "group":
                ops.append("msg 115 " + group_value(rng.randint(1, 1 << 20), rng.choice([0, 1, 2, 5, 256]), 1, ch, rng.choice([0, 0, 300, 1000, 5000]),
                                                      [rng.choice([0, 1, 1])]).hex())
            elif a == "button" and ch < ni:
                pin = 9 + ch
                if intypes[ch] == 2:
                    ops += ["input %d 0" % pin, "adv %d" % rng.choice([150, 300, 700]), "input %d 1" % pin, "adv 200"]
                else:
                    lvl[ch] ^= 1
                    ops += ["input %d %d" % (pin, lvl[ch]), "adv 300"]
            elif a == "rswitch":
                # a local switch request handed straight to supla_esp_gpio_relay_switch (255 = toggle)
                ops.append("rswitch %d %d" % (1 + ch, rng.choice([0, 1, 255, 255])))
            elif a == "adv":
                self.adv(ops, rng.choice([50, 400, 1200]))
            else:
                self.adv(ops, rng.choice([6000, 61000]))
            ops.append("adv 60")
        self.adv(ops, 2000)
        ops += ["adv 100", "adv 100", "relstate"]
        return F.Case("gen%d" % i, ops, {"n": n, "flags": flags, "chflags": chflags, "intypes": intypes, "kind": "stair" if stair else "plain",
                                          "tags": ["relays:%d" % n, "kind:" + ("stair" if stair else "plain")]})

    def fill_meta(self, case):
        """replays carry no meta: recompute the board description from the set-up ops"""
        if "n" in case.meta:
            return
        n, flags, chflags, intypes, kind = 1, {}, {}, {}, "plain"
        for op in case.ops:
            t = op.split()
            if t[0] == "board" and t[1].startswith("relay"):
                n = int(t[1][5:])
            elif t[0] == "relflags":
                flags[int(t[1])] = int(t[2]); chflags[int(t[1])] = int(t[3])
            elif t[0] == "intype":
                intypes[int(t[1])] = int(t[2])
            elif t[0] == "staircase":
                kind = "stair"
        case.meta.update({"n": n, "flags": [flags.get(k, 0) for k in range(n)], "chflags": [chflags.get(k, self.cdflag()) for k in range(n)],
                          "intypes": [intypes.get(k, 2) for k in range(min(n, 7))], "kind": kind})

    # ---- trace walking shared by model derivation and monitor
    def walk(self, case, raw):
        self.fill_meta(case)
        """yields per op: (op tokens, list of events) with events ('hi', idx, hi, out, value_call, result_call)"""
        n = case.meta["n"]
        out = {}     # pin -> level
        for op, g in zip(case.ops, raw):
            t = op.split()
            evs = []
            cur = None
            for x in g:
                p = x.split()
                if p[0] == "RELSTATE":
                    pin = int(p[2].split("=")[1])
                    out[pin] = int(p[3].split("=")[1])
                elif p[0] == "RELAYHI":
                    cur = {"pin": int(p[1]), "hi": int(p[2]), "out": None, "value": None, "result": None, "ext": 0}
                    evs.append(cur)
                elif p[0] == "GPIO":
                    out[int(p[1])] = int(p[2])
                elif p[0] == "CALL":
                    if p[1] == "value":
                        if cur is not None and cur["value"] is None:
                            cur["value"] = (int(p[2]), int(p[3]), int(p[4]))
                            cur["out"] = out.get(cur["pin"])
                        else:
                            evs.append({"stray": x})
                    elif p[1] == "result":
                        if cur is not None and cur["result"] is None and cur["value"] is not None:
                            cur["result"] = (int(p[2]), int(p[3]), int(p[4]), int(p[5]))
                        else:
                            evs.append({"result_only": (int(p[2]), int(p[3]), int(p[4]), int(p[5]))})
                    elif p[1] == "ext":
                        evs.append({"ext": (int(p[2]), int(p[3]))})
            for e in evs:
                if "pin" in e and e["out"] is None:
                    e["out"] = out.get(e["pin"])
            yield t, evs, dict(out)

    def derive_model(self, case, raw):
        if case.meta.get("kind") == "regflags" or any(o == "board mixed 0" for o in case.ops):
            return "", []       # judged by the monitor only
        self.fill_meta(case)
        n = case.meta["n"]
        ops, exp = [], []
        started = False
        for t, evs, out in self.walk(case, raw):
            if t[0] == "relstate" and not started:
                for k in range(n):
                    ops.append("cfg %d %d %d" % (k, 1 if case.meta["flags"][k] & LO else 0, out.get(1 + k, 0)))
                    exp.append([])
                started = True
                continue
            if not started:
                continue
            his = [e for e in evs if "pin" in e]
            if t[0] == "rswitch" and his and 0 <= int(t[1]) - 1 < n:
                # the decision of supla_esp_gpio_relay_switch against its model (switchHi): what is handed to relay_hi
                k = int(t[1]) - 1
                st = [o.split() for o in case.ops if o.startswith("staircase ")]
                stair = 1 if any(int(x[1]) == k and int(x[2]) > 0 for x in st) else 0
                stype = int(st[-1][3]) if st else 0
                ops.append("rswitch %d %d %d %s" % (k, stair, stype, t[2]))
                exp.append(["RSW %d" % his[0]["hi"]])
            for e in his:
                k = e["pin"] - 1
                if not (0 <= k < n):
                    continue          # a pin that belongs to no relay of the board: reported by the monitor
                lo = 1 if case.meta["flags"][k] & LO else 0
                logical = e["out"] ^ lo if e["out"] is not None else None
                want = ["OUT %d %s %s" % (k, e["out"], logical)]
                if e["value"] is not None:
                    want.append("VALUE %d" % e["value"][1])
                if t[0] == "msg" and t[1] in ("110", "115") and e["result"] is not None:
                    pl = bytes.fromhex(t[2])
                    v = struct.unpack("<b", pl[9:10])[0] if t[1] == "110" else struct.unpack("<b", pl[14:15])[0]
                    ops.append("server %d %d %d" % (k, e["result"][1], v))
                    want.append("RESULT %d %d" % (e["result"][1], e["result"][2]))
                else:
                    ops.append("hi %d %d" % (k, e["hi"]))
                exp.append(want)
            # the burst arithmetic: calls issued in this op group against the queue capacity
            calls = [x for x in (raw[0:0])]
        return "\n".join(ops) + "\n", exp

    def monitor(self, case, groups, rc, err):
        if rc != 0:
            return [F.Finding("crash", "implementation aborted (rc=%s): %s" % (rc, err[-900:]))]
        raw = case.meta.get("raw_impl") or []
        if case.meta.get("kind") == "regflags" or any(o == "board mixed 0" for o in case.ops):
            # pin levels over time (pin 3: channel 1, active high; pin 4: channel 2, active low)
            ed = [(int(x.split()[3]), int(x.split()[1]), int(x.split()[2])) for g in raw for x in g if x.startswith("GPIO ") and len(x.split()) == 4]
            lv = {3: 0, 4: 0}
            for tm, pin, lvl in ed:
                lv[pin] = lvl
            fs = []
            if not any(pin == 3 and lvl == 1 for tm, pin, lvl in ed):
                return fs        # (the set-up did not run: nothing to judge)
            if lv.get(3) != 1:
                fs.append(F.Finding("output-not-last-command", "channel 1 (countdown capable) was switched on and then 'off for a duration': after the "
                                    "duration it is still off (pin 3 = %s): the switch-back never came" % lv.get(3)))
            if lv.get(4) != 1:       # active low: logical off = pin high
                fs.append(F.Finding("output-not-last-command", "channel 2 (no countdown capability, active low) was switched 'off for a duration': "
                                    "it has to stay off, pin 4 = %s" % lv.get(4)))
            return fs
        self.fill_meta(case)
        me = case.meta
        n = me["n"]
        fs = []
        lastv = {}
        accepted = {100: 0, 120: 0, 105: 0}
        wire = {100: 0, 120: 0, 105: 0}
        for (t, evs, out), g in zip(self.walk(case, raw), raw):
            for e in evs:
                if "pin" in e and not (1 <= e["pin"] <= n):
                    fs.append(F.Finding("output-outside-board", "relay_hi was called for pin %d, which is no relay of this board (%s)" % (
                        e["pin"], " ".join(t[:2]))))
            # wire frames
            for x in g:
                if x.startswith("SENT 0 "):
                    b = bytes.fromhex(x.split()[2]) if len(x.split()) > 2 else b""
                    i = 0
                    while True:
                        i = b.find(b"SUPLA", i)
                        if i < 0 or i + 14 > len(b):
                            break
                        cid = int.from_bytes(b[i + 10:i + 14], "little")
                        if cid in wire and i + 18 <= len(b):
                            ds = int.from_bytes(b[i + 14:i + 18], "little")
                            if b[i + 18 + ds:i + 23 + ds] == b"SUPLA":
                                wire[cid] += 1
                        i += 5
                p = x.split()
                if p[0] == "CALL":
                    cid = {"value": 100, "result": 120, "ext": 105}[p[1]]
                    if p[-1] == "1":
                        accepted[cid] += 1
                    else:
                        fs.append(F.Finding("report-dropped-queue-full",
                                            "the out-queue refused a %s call (%s): the message is never sent" % (p[1], " ".join(p[2:-1]))))
                    if p[1] == "value":
                        lastv[int(p[2])] = int(p[3])
            # truth of the reports, at idle (after the op)
            for ch, v in lastv.items():
                if ch < n:
                    lo = 1 if me["flags"][ch] & LO else 0
                    lvl = out.get(1 + ch)
                    if lvl is not None and (lvl ^ lo) != v:
                        fs.append(F.Finding("report-differs-from-output", "channel %d: last reported value %d, pin says %d" % (ch, v, lvl ^ lo)))
            # one result per set-value request
            if t[0] == "msg" and t[1] == "110":
                pl = bytes.fromhex(t[2])
                sender, ch = struct.unpack("<iB", pl[:5])
                v = struct.unpack("<b", pl[9:10])[0]
                res = [e["result"] for e in evs if e.get("result")] + [e["result_only"] for e in evs if "result_only" in e]
                if len(res) != 1:
                    fs.append(F.Finding("result-count", "set-value for channel %d got %d results" % (ch, len(res))))
                else:
                    rch, rs, ok, _ = res[0]
                    if rch != ch or rs != sender:
                        fs.append(F.Finding("result-wrong-addressee", "result carries channel %d sender %d, request had %d / %d" % (rch, rs, ch, sender)))
                    if ch < n:
                        lo = 1 if me["flags"][ch] & LO else 0
                        lvl = out.get(1 + ch)
                        matches = lvl is not None and (lvl ^ lo) == (1 if v == 1 else 0)
                        if bool(ok) != bool(matches):
                            fs.append(F.Finding("result-flag-untrue", "channel %d: success=%d but output %s the request" % (ch, ok, "matches" if matches else "differs from")))
                        if not matches:
                            fs.append(F.Finding("output-ignores-command", "channel %d: set %d but the output is %s" % (ch, v, lvl)))
                    elif ok:
                        fs.append(F.Finding("result-flag-untrue", "unknown channel %d answered with success" % ch))
        fs += self.reference(case, raw)
        # accepted calls reach the wire (after the final advance everything is flushed)
        tail_calls = any(x.startswith("CALL ") for g in raw[-3:] for x in g)
        for cid in accepted:
            if wire[cid] != accepted[cid] and not tail_calls:     # (a call made in the last steps is sent by the next iterate)
                fs.append(F.Finding("accepted-call-not-on-wire", "call %d: %d accepted, %d frames sent" % (cid, accepted[cid], wire[cid])))
        return fs

    def reference(self, case, raw):
        """the property's own reading of 'the most recent effective command', evaluated at idle points:
        server/group set (timed: the opposite level at expiry, where a timer is started), monostable button =
        toggle on release, bistable = toggle on every change, motion sensor = on while active, off when it ends;
        every local switch cancels a running timer.  Points closer than 400 ms to an expiry are not judged."""
        me = case.meta
        if me.get("kind") not in ("plain", "witness", "stair"):
            return []
        n = me["n"]
        # staircase channels (a configured Time2): a switch-on runs the configured time; a button press on a lit staircase
        # re-arms it (button type 0, 'reset') or switches it off (type 1, 'toggle')
        stair, stype = {}, 0
        for o in case.ops:
            if o.startswith("staircase "):
                stair[int(o.split()[1])] = int(o.split()[2])
                stype = int(o.split()[3])
        cd = self.cdflag()
        fs = []
        L = {}
        timer = {}
        now = 0
        inlvl = {}
        pressed_at = {}
        unknown = set()
        for (t, evs, out), g in zip(self.walk(case, raw), raw):
            for x in g:
                if x.startswith("NOW "):
                    now = int(x.split()[1]) // 1000
            if t[0] == "relstate" and not L:
                for k in range(n):
                    lo = 1 if me["flags"][k] & LO else 0
                    L[k] = out.get(1 + k, 0) ^ lo
                continue
            if not L:
                continue
            if t[0] == "adv":
                now += int(t[1])
            elif t[0] == "msg" and t[1] in ("110", "115"):
                pl = bytes.fromhex(t[2])
                if t[1] == "110":
                    ch, dur, v = pl[4], struct.unpack("<I", pl[5:9])[0], struct.unpack("<b", pl[9:10])[0]
                else:
                    ch, dur, v = pl[9], struct.unpack("<I", pl[10:14])[0], struct.unpack("<b", pl[14:15])[0]
                if ch < n:
                    L[ch] = 1 if v == 1 else 0
                    unknown.discard(ch)
                    timer.pop(ch, None)
                    if stair.get(ch):
                        if v == 1:
                            timer[ch] = (now + stair[ch], 0)
                    elif dur > 0 and (v == 1 or me["chflags"][ch] & cd):
                        timer[ch] = (now + dur, 0 if v else 1)
            elif t[0] == "rswitch":
                k = int(t[1]) - 1
                if 0 <= k < n:
                    unknown.add(k)          # judged by the model comparison; the reference resynchronises on the output
                    timer.pop(k, None)
            elif t[0] == "input":
                pin, lv = int(t[1]), int(t[2])
                k = pin - 9
                prev = inlvl.get(k, 1)
                inlvl[k] = lv
                if k < len(me["intypes"]) and k < n and lv != prev:
                    if now - pressed_at.get(k, -10 ** 9) < 160 or now < 1000:   # (start-up: inputs are not evaluated yet)
                        unknown.add(k)        # edges closer than the debounce time: the outcome is C11's subject
                    pressed_at[k] = now
                    ty = me["intypes"][k]
                    pending = ("edge", k, ty, lv, now)
                    # the effect lands after the debounce (~120 ms): applied when time has advanced
                    timer.setdefault("edges", []).append(pending)
            # apply debounced edges and expiries that are safely in the past, in time order
            for e in sorted(timer.get("edges", []), key=lambda e: e[4]):
                _, k, ty, lv, at = e
                if now >= at + 140:
                    timer["edges"].remove(e)
                    if k in timer:
                        dl, target = timer[k]
                        if dl <= at:                       # the timer ran out before the edge took effect
                            L[k] = target
                            timer.pop(k)
                        elif dl <= at + 400:               # too close to call: C07's subject
                            unknown.add(k)
                    def switched(newv):
                        # the local switch of relay k: newv None = toggle
                        timer.pop(k, None)
                        if stair.get(k):
                            if newv is None:
                                newv = 1 if stype == 0 else L[k] ^ 1
                            elif newv and stype == 0:
                                newv = 1
                            L[k] = newv
                            if newv:
                                timer[k] = (at + 120 + stair[k], 0)
                        else:
                            L[k] = (L[k] ^ 1) if newv is None else newv
                    if ty == 2:
                        if lv == 1:          # release of a monostable button
                            switched(None)
                    elif ty == 4:
                        switched(None)
                    elif ty == 8:
                        switched(1 if lv == 0 else 0)
            unsure = set(e[1] for e in timer.get("edges", [])) | unknown
            for ch in [c for c in timer if c != "edges"]:
                dl, target = timer[ch]
                if now >= dl + 400:
                    L[ch] = target
                    timer.pop(ch)
                elif now >= dl - 100:
                    unsure.add(ch)
            if t[0] in ("adv", "pingreply", "relstate", "msg", "input"):
                for ch in range(n):
                    if ch in unsure and ch not in unknown:
                        continue
                    lo = 1 if me["flags"][ch] & LO else 0
                    lvl = out.get(1 + ch)
                    if ch in unknown and lvl is not None:
                        L[ch] = lvl ^ lo
                    if lvl is not None and (lvl ^ lo) != L[ch]:
                        fs.append(F.Finding("output-not-last-command", "channel %d: the most recent effective command asks for %d, the "
                                            "output is %d (t=%d ms)" % (ch, L[ch], lvl ^ lo, now)))
                        L[ch] = lvl ^ lo      # report once, then resynchronise
        return fs

    def nontrivial_key(self, case, groups):
        raw = case.meta.get("raw_impl") or []
        k = set()
        for g in raw:
            for x in g:
                p = x.split()
                if p[0] == "RELAYHI":
                    k.add(("hi", p[2]))
                elif p[0] == "CALL":
                    k.add((p[1], p[-1]))
        me = case.meta
        return (tuple(me["flags"][:2]), tuple(me["chflags"][:2]), tuple(sorted(k))) if k else None


SPEC = C06()
