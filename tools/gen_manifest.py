#!/usr/bin/env python3
"""Writes MANIFEST.json from the table below (kept in one place so it stays valid)."""
import json, os
V = os.path.dirname(os.path.dirname(os.path.abspath(__file__)))
CHECKS = {
 # pid: (technique, level text, level note, design_ref)
}
NA = {}
exec(open(os.path.join(V, "tools", "manifest_table.py")).read())
props = [json.loads(l)["id"] for l in open(os.path.join(V, "properties.jsonl"))]
m = {
 "version": 1,
 "setup_cmd": "python3 tools/setup.py",
 "hooks": {"guard": "SUPLA_VERIF_HOOKS", "enable": "harness builds pass -DSUPLA_VERIF_HOOKS (tools/common.py fw_flags); the hooks are observation calls (two in supla_esp_rs_fb.c, one in supla_esp_gpio.c supla_esp_gpio_relay_hi, two in mqtt.c __mqtt_recv, one in supla_esp_cfgmode.c supla_esp_parse_vars) implemented by harness/sdk/fwglue.c",
           "baseline_off_cmd": "cmake --build /repo/_build && ctest --test-dir /repo/_build -j8 --timeout 900",
           "source_commits": ["b9317a8", "92de6c7", "9a2bc4b", "ce6c071"], "add_only": True},
 "engines": [{"name": "lean4+correspondence", "path": "tools/check.py", "serves_properties": sorted(CHECKS),
              "kind_free_text": "Lean 4 theorems over executable models (lean/SuplaVerif), constants/tables regenerated from /repo by tools/extract.py, models run against the real translation units on the same ops files (harness/), direct property monitors for replays"}],
 "checks": [], "not_applicable": [],
 "notes": "see DESIGN.md; known_findings.json lists recorded findings and fixed defects",
}
for pid in props:
    if pid in CHECKS:
        tech, text, note, ref = CHECKS[pid]
        m["checks"].append({
            "property_id": pid, "quick_cmd": "python3 tools/check.py %s --tier quick" % pid,
            "thorough_cmd": "python3 tools/check.py %s --tier thorough" % pid,
            "evidence_file": "evidence/%s.json" % pid,
            "replay_cmd_template": "python3 tools/check.py %s --replay {path}" % pid,
            "engine": "lean4+correspondence",
            "level_claimed": {"category": "proof", "text": text, "design_ref": ref},
            "level_note": note, "technique": tech})
    else:
        m["not_applicable"].append({"property_id": pid, "reason": NA.get(pid, "no check was built for this property in the available time, so nothing is claimed for it; the technique does apply (planned model, theorems and tie: DESIGN-phase1-plan.md section 4; status: DESIGN.md section 8)")})
json.dump(m, open(os.path.join(V, "MANIFEST.json"), "w"), indent=1)
print("MANIFEST: %d checks, %d not_applicable" % (len(m["checks"]), len(m["not_applicable"])))
