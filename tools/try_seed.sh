#!/bin/bash
# usage: try_seed.sh <ID> <patch.diff> [tier]  — apply to /repo, run the check, revert; never commits
id=$1; patch=$2; tier=${3:-quick}
git -C /repo apply "$patch" || exit 2
python3 /verif/tools/check.py $id --tier $tier > /tmp/try_seed.$$ 2>&1
grep -E "^VIOLATION|^KNOWN-FINDING" /tmp/try_seed.$$ | cut -c1-260
grep -v "^WARNING\|^VIOLATION\|^KNOWN-FINDING" /tmp/try_seed.$$ | cut -c1-260 | tail -6
rm -f /tmp/try_seed.$$
git -C /repo checkout -- .
