#!/bin/bash
# usage: try_seed.sh <ID> <patch.diff> [tier]  — apply to /repo, run the check, revert; never commits
id=$1; patch=$2; tier=${3:-quick}
git -C /repo apply "$patch" || exit 2
python3 /verif/tools/check.py $id --tier $tier 2>&1 | grep -v "^WARNING" | cut -c1-260 | tail -8
git -C /repo checkout -- .
