#!/bin/bash
# usage: try_seed.sh <ID> <patch.diff> [tier]  — apply to /repo, run the check, revert; never commits.
# A violation with a replay is replayed on the reverted (clean) tree: it must pass there, otherwise the finding is an alarm of the
# machinery and not an effect of the change.
id=$1; patch=$2; tier=${3:-quick}
git -C /repo apply "$patch" || exit 2
python3 /verif/tools/check.py $id --tier $tier > /tmp/try_seed.$$ 2>&1
grep -E "^VIOLATION|^KNOWN-FINDING" /tmp/try_seed.$$ | cut -c1-260
grep -v "^WARNING\|^VIOLATION\|^KNOWN-FINDING" /tmp/try_seed.$$ | cut -c1-260 | tail -6
rep=$(grep -E "^VIOLATION" /tmp/try_seed.$$ | grep -v "no-failing-input-found" | sed -n 's/.*replay=\([^ ]*\).*/\1/p' | head -1)
rm -f /tmp/try_seed.$$
git -C /repo checkout -- .
if [ -n "$rep" ] && [ -f "$rep" ]; then
  cp "$rep" /tmp/try_seed_replay.$$
  if python3 /verif/tools/check.py $id --replay /tmp/try_seed_replay.$$ 2>&1 | grep -q "^VIOLATION"; then
    echo "CLEAN-REPLAY: FAILS ON THE UNCHANGED TREE (alarm of the machinery, not an effect of the change)"
  else
    echo "clean-replay: passes on the unchanged tree"
  fi
  rm -f /tmp/try_seed_replay.$$
fi
