/* drv_dns — C20 driver: real supla_esp_dns_client.c against the SDK model.
 * Timers are fired explicitly ("fire timeout|retry") so that the ops file fixes the order. */
#include "sdk/sdk.h"
#include "sdk/fwglue.h"
#include "ops.h"

#include "/repo/src/user/supla_esp_dns_client.c"
/* VERIF-INCLUDES: supla_esp_dns_client.c */

static void result_cb(ip_addr_t *ip) {
  if (ip) {
    unsigned char *b = (unsigned char *)&ip->addr;
    sdk_out("CALLBACK %u.%u.%u.%u", b[0], b[1], b[2], b[3]);
  } else
    sdk_out("CALLBACK null");
}
static void fire(ETSTimer *t) {
  if (!sdk_timer_armed(t)) { sdk_out("NOTARMED"); return; }
  os_timer_disarm(t);
  if (t->timer_func) t->timer_func(t->timer_arg);
}
int main(void) {
  static unsigned char buf[70000];
  sdk_log_echo = 0;
  sdk_log_sent_bytes = 1;
  supla_esp_dns_client_init();
  while (ops_next()) {
    const char *op = ops_tok[0];
    if (!strcmp(op, "resolve") && ops_ntok == 2) {
      if (!strcmp(ops_tok[1], "NULL")) supla_esp_dns_resolve(NULL, result_cb);
      else if (!strcmp(ops_tok[1], "EMPTY")) supla_esp_dns_resolve("", result_cb);
      else supla_esp_dns_resolve(ops_tok[1], result_cb);
    } else if (((!strcmp(op, "connected") || !strcmp(op, "reply")) && !sdk_conn_open) ||
               (!strcmp(op, "disc") && !sdk_conn_open && !sdk_disc_pending)) {
      sdk_out("NOCONN"); /* the SDK delivers these callbacks only for a connection that was requested */
    } else if (!strcmp(op, "connected") && ops_ntok == 2) {
      if (sdk_esp_script_len < SDK_ESP_SCRIPT_MAX) sdk_esp_script[sdk_esp_script_len++] = atoi(ops_tok[1]);
      supla_esp_dns_connect_cb(&dns_client_vars.conn);
    } else if (!strcmp(op, "reply") && ops_ntok == 2) {
      long n = ops_hex(ops_tok[1], buf, sizeof(buf));
      if (n < 0) sdk_out("BADOP");
      else {
        char *p = malloc(n ? n : 1); /* exact-size heap copy: ASan sees any access beyond len */
        memcpy(p, buf, n);
        supla_esp_dns_recv_cb(&dns_client_vars.conn, p, (unsigned short)n);
        free(p);
      }
    } else if (!strcmp(op, "disc")) {
      sdk_conn_open = 0;
      sdk_disc_pending = 0;
      supla_esp_dns_disconnect_cb(&dns_client_vars.conn);
    } else if (!strcmp(op, "connres") && ops_ntok >= 2) { /* results of the next espconn_connect calls */
      sdk_connect_script_len = sdk_connect_script_pos = 0;
      for (int i = 1; i < ops_ntok && sdk_connect_script_len < 16; i++) sdk_connect_script[sdk_connect_script_len++] = atoi(ops_tok[i]);
    } else if (!strcmp(op, "fire") && ops_ntok == 2) {
      fire(!strcmp(ops_tok[1], "timeout") ? &dns_client_vars.timeout_timer : &dns_client_vars.retry_timer);
    } else sdk_out("BADOP");
    sdk_out("STATE %d %d %d %d", dns_client_vars.success, dns_client_vars.try_counter,
            sdk_timer_armed(&dns_client_vars.timeout_timer), sdk_timer_armed(&dns_client_vars.retry_timer));
    ops_done();
  }
  return 0;
}
