/* /verif board header: MQTT build (MQTT_SUPPORT_ENABLED + HA options) */
#ifndef VERIF_BOARD_MQTT_H
#define VERIF_BOARD_MQTT_H
void verif_factory_hook(void);
#define BOARD_ESP_FACTORY_DEFAULTS verif_factory_hook();
#ifndef MQTT_SUPPORT_ENABLED
#define MQTT_SUPPORT_ENABLED
/* observation of every recognised input state change (supla_esp_board_input_state_change in sdk/fwglue.c) */
#define BOARD_INPUT_STATE_CHANGE_NOTIF
#endif
#define MQTT_HA_RELAY_SUPPORT
#define MQTT_HA_ROLLERSHUTTER_SUPPORT
#define MQTT_HA_ACTION_TRIGGER_SUPPORT
#define RETREIVE_CHANNEL_CONFIG 0xff
/* the firmware expects this macro to expand to a definition of pgm_read_byte_inlined() */
#define PGM_READ_INLINED \
  static inline unsigned char pgm_read_byte_inlined(const void *addr) { return *(const unsigned char *)addr; }
/* observation of every recognised input state change (supla_esp_board_input_state_change in sdk/fwglue.c) */
#define BOARD_INPUT_STATE_CHANGE_NOTIF
#endif
