/* drv_boot — C12 (boot clause): the real user_init of user_main.c on a chosen stored configuration: does the device start its
 * open configuration mode or its normal operation? */
#include "sdk/sdk.h"
#include "sdk/fwglue.h"
#include "ops.h"
#include <supla_esp.h>
#include <supla_esp_cfg.h>
#include <supla_esp_cfgmode.h>
#include <supla_esp_devconn.h>

void user_init(void);

int main(void) {
  static unsigned char buf[8192];
  sdk_log_echo = 0;
  sdk_restart_armed = 1;
  memset(sdk_flash, 0xff, sizeof(sdk_flash));
  sdk_boot_cnt = 12345; /* (a counter reading of exactly 0 means 'not started' to supla_esp_cfgmode_started) */
  while (ops_next()) {
    if (sdk_dead) { sdk_out("DEAD"); ops_done(); continue; }
    if (setjmp(sdk_restart_jmp) == 0) {
      const char *op = ops_tok[0];
      if (!strcmp(op, "prepare")) { /* a valid stored configuration with factory defaults */
        supla_esp_cfg_init();
      } else if (!strcmp(op, "set") && ops_ntok == 3) { /* modify the record: offset hex, then save */
        long n = ops_hex(ops_tok[2], buf, sizeof(buf));
        unsigned off = (unsigned)strtoul(ops_tok[1], 0, 10);
        if (n < 0 || off + n > sizeof(supla_esp_cfg)) sdk_out("BADOP");
        else memcpy((char *)&supla_esp_cfg + off, buf, n);
      } else if (!strcmp(op, "save")) {
        sdk_out("SAVERET %d", supla_esp_cfg_save(&supla_esp_cfg));
      } else if (!strcmp(op, "userinit")) {
        user_init();
        sdk_advance_us(50000);
        sdk_out("BOOT cfgmode=%d", supla_esp_cfgmode_started() ? 1 : 0);
      } else sdk_out("BADOP");
    }
    ops_done();
  }
  return 0;
}
