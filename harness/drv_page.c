/* drv_page — C15 driver: renders the configuration page with the real page builder for a given
 * configuration and prints it.  Built once per page variant (compile-time options). */
#include "sdk/sdk.h"
#include "sdk/fwglue.h"
#include "ops.h"
#include <supla_esp.h>
#include <supla_esp_cfg.h>
#include <supla_esp_state.h>

char *supla_esp_cfgmode_get_html_template(char dev_name[25], const char mac[6], const char data_saved);

static int setf(void *dst, size_t cap, const char *hex) {
  static unsigned char b[4096];
  long n = ops_hex(hex, b, sizeof(b));
  if (n < 0 || (size_t)n > cap) return -1;
  memset(dst, 0, cap);
  memcpy(dst, b, n);
  return 0;
}
extern struct { char laststate[STATE_MAXSIZE]; } supla_esp_state_vars;

void supla_esp_wifi_check_status(void *ptr);

int main(void) {
  sdk_log_echo = 0;
  memset(&supla_esp_cfg, 0, sizeof(supla_esp_cfg));
  while (ops_next()) {
    const char *op = ops_tok[0];
    int r = 0;
    if (!strcmp(op, "cfg") && ops_ntok == 3) {
      const char *f = ops_tok[1], *h = ops_tok[2];
      if (!strcmp(f, "ssid")) r = setf(supla_esp_cfg.WIFI_SSID, sizeof(supla_esp_cfg.WIFI_SSID), h);
      else if (!strcmp(f, "wifipwd")) r = setf(supla_esp_cfg.WIFI_PWD, sizeof(supla_esp_cfg.WIFI_PWD), h);
      else if (!strcmp(f, "server")) r = setf(supla_esp_cfg.Server, sizeof(supla_esp_cfg.Server), h);
      else if (!strcmp(f, "email")) r = setf(supla_esp_cfg.Email, sizeof(supla_esp_cfg.Email), h);
      else if (!strcmp(f, "password")) r = setf(supla_esp_cfg.Password, sizeof(supla_esp_cfg.Password), h);
      else if (!strcmp(f, "authkey")) r = setf(supla_esp_cfg.AuthKey, sizeof(supla_esp_cfg.AuthKey), h);
      else if (!strcmp(f, "guid")) r = setf(supla_esp_cfg.GUID, sizeof(supla_esp_cfg.GUID), h);
      else if (!strcmp(f, "prefix")) r = setf(supla_esp_cfg.MqttTopicPrefix, sizeof(supla_esp_cfg.MqttTopicPrefix), h);
      else if (!strcmp(f, "flags")) supla_esp_cfg.Flags = strtoul(h, 0, 10);
      else if (!strcmp(f, "port")) supla_esp_cfg.Port = atoi(h);
      else if (!strcmp(f, "btn")) { supla_esp_cfg.CfgButtonType = atoi(h) & 1; supla_esp_cfg.Button1Type = (atoi(h) >> 1) & 1;
                                    supla_esp_cfg.Button2Type = (atoi(h) >> 2) & 1; supla_esp_cfg.FirmwareUpdate = (atoi(h) >> 3) & 1; }
      else if (!strcmp(f, "state")) r = setf(supla_esp_state_vars.laststate, STATE_MAXSIZE - 1, h);
      else r = -1;
      if (r) sdk_out("BADOP");
    } else if (!strcmp(op, "wifistatus") && ops_ntok == 2) { /* the real status poll writes the state text of the page */
      sdk_wifi_status = atoi(ops_tok[1]);
      supla_esp_wifi_check_status(NULL);
      fprintf(stdout, "STATETEXT ");
      if (strlen(supla_esp_state_vars.laststate)) sdk_out_hex(supla_esp_state_vars.laststate, strlen(supla_esp_state_vars.laststate)); else fputc('-', stdout);
      fputc('\n', stdout);
    } else if (!strcmp(op, "page") && ops_ntok == 2) {
      char name[25] = "VERIF-DEVICE-NAME-123456";
      const char mac[6] = {0x5c, 0xcf, 0x7f, 1, 2, 3};
      char *html = supla_esp_cfgmode_get_html_template(name, mac, (char)atoi(ops_tok[1]));
      if (!html) sdk_out("PAGE null");
      else {
        size_t n = strlen(html);
        fprintf(stdout, "PAGE %zu ", n);
        sdk_out_hex(html, n);
        fputc('\n', stdout);
        free(html);
      }
    } else sdk_out("BADOP");
    ops_done();
  }
  return 0;
}
