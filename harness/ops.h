/* ops-file helpers shared by all drivers: one operation per line on stdin,
 * observations on stdout, every op answered by a final "." line. */
#ifndef VERIF_OPS_H
#define VERIF_OPS_H
#include <stdio.h>
#include <stdlib.h>
#include <string.h>
#include <stdint.h>

#define OPS_LINE_MAX (1 << 16)
static char ops_line[OPS_LINE_MAX];
static char *ops_tok[64];
static int ops_ntok;

static int ops_next(void) {
  for (;;) {
    if (!fgets(ops_line, sizeof(ops_line), stdin)) return 0;
    size_t n = strlen(ops_line);
    while (n && (ops_line[n - 1] == '\n' || ops_line[n - 1] == '\r')) ops_line[--n] = 0;
    if (n == 0 || ops_line[0] == '#') continue;
    ops_ntok = 0;
    char *p = ops_line;
    while (*p && ops_ntok < 64) {
      while (*p == ' ') p++;
      if (!*p) break;
      ops_tok[ops_ntok++] = p;
      while (*p && *p != ' ') p++;
      if (*p) *p++ = 0;
    }
    if (ops_ntok) return 1;
  }
}

static int hexv(int c) {
  if (c >= '0' && c <= '9') return c - '0';
  if (c >= 'a' && c <= 'f') return c - 'a' + 10;
  if (c >= 'A' && c <= 'F') return c - 'A' + 10;
  return -1;
}
/* returns length, -1 on bad hex; "-" is the empty string */
static long ops_hex(const char *s, unsigned char *out, size_t cap) {
  if (s[0] == '-' && s[1] == 0) return 0;
  size_t n = strlen(s);
  if (n % 2 || n / 2 > cap) return -1;
  for (size_t i = 0; i < n / 2; i++) {
    int a = hexv(s[2 * i]), b = hexv(s[2 * i + 1]);
    if (a < 0 || b < 0) return -1;
    out[i] = (unsigned char)(a * 16 + b);
  }
  return (long)(n / 2);
}
static void ops_done(void) {
  puts(".");
  fflush(stdout);
}
#endif
