/* drv_dev — whole-device driver: real devconn (included for its statics), gpio, input,
 * rs_fb, countdown, cfg, cfgmode ... against the SDK model.  Used by C03 C04 C06 C08 C12.
 * VERIF-INCLUDES: supla_esp_devconn.c */
#include "sdk/sdk.h"
#include "sdk/fwglue.h"
#include "ops.h"
#include <unistd.h>
#include <fcntl.h>

/* observe srpc_getdata's verdict: the dispatcher in devconn.c calls this wrapper */
#include <srpc.h>
static char verif_getdata(void *srpc, TsrpcReceivedData *rd, unsigned _supla_int_t rr_id);
#define srpc_getdata verif_getdata
/* observe the device-originated relay reports at the call level (C06): value, result, extended value */
static int verif_call_log = 0;
static _supla_int_t verif_value_changed(void *srpc, unsigned char ch, char *value);
static _supla_int_t verif_set_result(void *srpc, unsigned char ch, _supla_int_t sender, char success);
static _supla_int_t verif_ext_changed(void *srpc, unsigned char ch, TSuplaChannelExtendedValue *v);
static _supla_int_t verif_action_trigger(void *srpc, TDS_ActionTrigger *at);
#define srpc_ds_async_action_trigger verif_action_trigger
#define srpc_ds_async_channel_value_changed verif_value_changed
#define srpc_ds_async_set_channel_result verif_set_result
#define srpc_ds_async_channel_extendedvalue_changed verif_ext_changed
#include "supla_esp_devconn.c"
#undef srpc_getdata
#undef srpc_ds_async_channel_value_changed
#undef srpc_ds_async_set_channel_result
#undef srpc_ds_async_channel_extendedvalue_changed
#undef srpc_ds_async_action_trigger
static _supla_int_t verif_action_trigger(void *srpc, TDS_ActionTrigger *at) {
  _supla_int_t r = srpc_ds_async_action_trigger(srpc, at);
  if (verif_call_log) sdk_out("CALL at %u %d %u %llu", at->ChannelNumber, r != 0, (unsigned)at->ActionTrigger, (unsigned long long)sdk_now_us);
  return r;
}
static _supla_int_t verif_value_changed(void *srpc, unsigned char ch, char *value) {
  _supla_int_t r = srpc_ds_async_channel_value_changed(srpc, ch, value);
  if (verif_call_log) { sdk_out("CALL value %u %d %d", ch, value[0], r != 0); sdk_out("VALTILT %u %d", ch, value[1]); } /* (value[1]: the tilt of a facade blind) */
  return r;
}
static _supla_int_t verif_set_result(void *srpc, unsigned char ch, _supla_int_t sender, char success) {
  _supla_int_t r = srpc_ds_async_set_channel_result(srpc, ch, sender, success);
  if (verif_call_log) sdk_out("CALL result %u %d %d %d", ch, sender, success, r != 0);
  return r;
}
static _supla_int_t verif_ext_changed(void *srpc, unsigned char ch, TSuplaChannelExtendedValue *v) {
  _supla_int_t r = srpc_ds_async_channel_extendedvalue_changed(srpc, ch, v);
  if (verif_call_log) sdk_out("CALL ext %u %d", ch, r != 0);
  return r;
}
static char verif_getdata(void *srpc, TsrpcReceivedData *rd, unsigned _supla_int_t rr_id) {
  char r = srpc_getdata(srpc, rd, rr_id);
  sdk_out("GETDATA %u %d", (unsigned)rd->call_id, (int)(signed char)r);
  return r;
}

#include <supla_esp_cfgmode.h>
#include <supla_esp_countdown_timer.h>
#include <uptime.h>

/* ------------------------------------------------------------ uptime control (C05) */
extern struct { uint32 cycles; uint32 last_system_time; ETSTimer timer; } usermain_uptime;
static void set_uptime_usec(unsigned long long usec);
static void set_uptime_sec(unsigned long long sec) { set_uptime_usec(sec * 1000000ull + 123); }
static void set_uptime_usec(unsigned long long usec) {
  usermain_uptime.cycles = (uint32)(usec / 0xffffffffull);
  uint32 time = (uint32)(usec % 0xffffffffull);
  usermain_uptime.last_system_time = time;
  sdk_boot_cnt = time - (uint32)sdk_now_us;
}

/* ------------------------------------------------------------ countdown probes (C07) */
typedef struct { _supla_int_t sender_id; unsigned _supla_int64_t last_time; unsigned int time_left_ms;
  uint8 gpio_id; uint8 channel_number; char target_value[SUPLA_CHANNELVALUE_SIZE]; } verif_cd_item;
typedef struct { unsigned int delay_ms; ETSTimer timer; verif_cd_item items[RELAY_MAX_COUNT];
  void *finish_cb; void *on_disarm_cb; } verif_cd_vars;
extern verif_cd_vars countdown_timer_vars;
static void cd_finish_probe(uint8 gpio_id, uint8 channel_number, char target_value[SUPLA_CHANNELVALUE_SIZE]) {
  sdk_out("FINISH %u", channel_number);
}

/* ------------------------------------------------------------ ping bookkeeping (C05 scenarios) */
static int ping_pending = 0;
static void sent_hook(const uint8_t *p, int len, int result) {
  /* a frame starts with SUPLA, version, rr_id, call_id: call 40 = PING_SERVER */
  for (int i = 0; result == 0 && p && i + 23 <= len; i++)
    if (!memcmp(p + i, "SUPLA", 5) && p[i + 10] == 40 && p[i + 11] == 0 && p[i + 12] == 0 && p[i + 13] == 0) ping_pending = 1;
}

/* ------------------------------------------------------------ snapshots */
#define NSLOT 400
static long long snap_prev[NSLOT];
static const char *snap_name[NSLOT];
static int snap_idx[NSLOT];
static int snap_n, snap_init_done;

static int rs_relay_index(supla_relay_cfg_t *r) {
  if (!r) return -1;
  return (int)(r - supla_relay_cfg);
}
static void snap_put(int *k, const char *name, int idx, long long v, int print) {
  if (*k >= NSLOT) abort();
  if (snap_init_done && print && snap_prev[*k] != v)
    sdk_out("CHG %s %d %lld", name, idx, v);
  snap_prev[*k] = v;
  snap_name[*k] = name;
  snap_idx[*k] = idx;
  (*k)++;
}
static void snapshot(int print) {
  int k = 0, i;
  for (i = 0; i < CFG_TIME1_COUNT; i++) snap_put(&k, "Time1", i, supla_esp_cfg.Time1[i], print);
  for (i = 0; i < CFG_TIME2_COUNT; i++) snap_put(&k, "Time2", i, supla_esp_cfg.Time2[i], print);
  for (i = 0; i < CFG_TIME3_COUNT; i++) snap_put(&k, "Time3", i, supla_esp_cfg.Time3[i], print);
  for (i = 0; i < RS_MAX_COUNT; i++) {
    snap_put(&k, "AutoCalOpen", i, supla_esp_cfg.AutoCalOpenTime[i], print);
    snap_put(&k, "AutoCalClose", i, supla_esp_cfg.AutoCalCloseTime[i], print);
    snap_put(&k, "TiltType", i, supla_esp_cfg.TiltControlType[i], print);
    snap_put(&k, "Margin", i, supla_esp_cfg.AdditionalTimeMargin[i], print);
    snap_put(&k, "MotorUD", i, (supla_esp_cfg.MotorUpsideDown >> i) & 1, print);
    snap_put(&k, "RsPos", i, supla_esp_state.rs_position[i], print);
    snap_put(&k, "RsTilt", i, supla_esp_state.tilt[i], print);
    snap_put(&k, "RsUp", i, rs_relay_index(supla_rs_cfg[i].up), print);
    snap_put(&k, "RsDown", i, rs_relay_index(supla_rs_cfg[i].down), print);
    snap_put(&k, "RsTask", i, supla_rs_cfg[i].task.state * 1000000LL + (supla_rs_cfg[i].task.position & 255) * 1000 + (supla_rs_cfg[i].task.tilt & 255), print);
    snap_put(&k, "RsTrig", i, supla_rs_cfg[i].delayed_trigger.value, print);
    snap_put(&k, "RsFlags", i, supla_rs_cfg[i].flags, print);
    snap_put(&k, "RsAutoCalReq", i, supla_rs_cfg[i].performAutoCalibration * 2 + supla_rs_cfg[i].autoCal_button_request, print);
  }
  snap_put(&k, "ButtonsUD", 0, supla_esp_cfg.ButtonsUpsideDown, print);
  for (i = 0; i < RELAY_MAX_COUNT; i++) {
    snap_put(&k, "RelayState", i, supla_esp_state.Relay[i], print);
    snap_put(&k, "RelayGpio", i, supla_relay_cfg[i].gpio_id, print);
    snap_put(&k, "RelayChan", i, supla_relay_cfg[i].channel, print);
  }
  for (i = 0; i < STATE_CFG_TIME1_COUNT; i++) snap_put(&k, "Time1Left", i, supla_esp_state.Time1Left[i], print);
  for (i = 0; i < STATE_CFG_TIME2_COUNT; i++) snap_put(&k, "Time2Left", i, supla_esp_state.Time2Left[i], print);
  for (i = 0; i < INPUT_MAX_COUNT; i++) {
    snap_put(&k, "InGpio", i, supla_input_cfg[i].gpio_id, print);
    snap_put(&k, "InTrig", i, supla_input_cfg[i].active_triggers, print);
    snap_put(&k, "InRelay", i, supla_input_cfg[i].relay_gpio_id, print);
    snap_put(&k, "InState", i, supla_input_cfg[i].last_state, print);
  }
  for (i = 0; i < CHANNEL_MAX_COUNT; i++) {
    snap_put(&k, "RtCfg", i, devconn ? devconn->runtime_config_channels[i] : 0, print);
    snap_put(&k, "FuncSrv", i, devconn ? devconn->channel_function_from_server[i] : 0, print);
    snap_put(&k, "VisType", i, channel_config_visualization_type[i], print);
  }
  snap_put(&k, "CfgMode", 0, supla_esp_cfgmode_started(), print);
  snap_put(&k, "Registered", 0, devconn ? devconn->registered : 0, print);
  snap_put(&k, "ActTimeout", 0, devconn ? devconn->server_activity_timeout : 0, print);
  snap_n = k;
  snap_init_done = 1;
}

/* --------------------------------------------------------------- boards */
static void board_reset(void) { memset(&fw_board, 0, sizeof(fw_board)); fw_board.motor_up_ms = 2000; fw_board.motor_down_ms = 2000; }
static void add_relay(int gpio, int flags, int channel, unsigned chflags) {
  int i = fw_board.nrelays++;
  fw_board.relays[i].gpio = gpio; fw_board.relays[i].flags = flags;
  fw_board.relays[i].channel = channel; fw_board.relays[i].channel_flags = chflags;
}
static void add_input(int gpio, int flags, int type, int relay_gpio, int channel, unsigned cap) {
  int i = fw_board.ninputs++;
  fw_board.inputs[i].gpio = gpio; fw_board.inputs[i].flags = flags; fw_board.inputs[i].type = type;
  fw_board.inputs[i].relay_gpio = relay_gpio; fw_board.inputs[i].channel = channel; fw_board.inputs[i].at_cap = cap;
}
static void add_channel(int number, int type, int funclist, int deflt, int flags) {
  int i = fw_board.nchannels++;
  fw_board.channels[i].number = number; fw_board.channels[i].type = type;
  fw_board.channels[i].funclist = funclist; fw_board.channels[i].deflt = deflt; fw_board.channels[i].flags = flags;
}
/* relay GPIOs 1..8 (never 0: gpio 0 with channel 0 in zeroed slots is ambiguous), inputs 10.. */
static int board_preset(const char *name, int flags) {
  board_reset();
  if (!strncmp(name, "relay", 5)) {
    int n = atoi(name + 5);
    if (n < 1 || n > 8) return -1;
    for (int i = 0; i < n; i++) {
      add_relay(1 + i, flags, i, SUPLA_CHANNEL_FLAG_COUNTDOWN_TIMER_SUPPORTED);
      add_channel(i, SUPLA_CHANNELTYPE_RELAY, 0xffff, SUPLA_CHANNELFNC_LIGHTSWITCH, SUPLA_CHANNEL_FLAG_COUNTDOWN_TIMER_SUPPORTED);
    }
    int ni = n < 7 ? n : 7;
    for (int i = 0; i < ni; i++)
      add_input(9 + i, i == 0 ? (INPUT_FLAG_PULLUP | INPUT_FLAG_CFG_BTN) : INPUT_FLAG_PULLUP, INPUT_TYPE_BTN_MONOSTABLE, 1 + i, 255, 0);
    return 0;
  }
  if (!strncmp(name, "rs", 2)) {
    int n = atoi(name + 2);
    if (n < 1 || n > 4) return -1;
    for (int i = 0; i < n; i++) {
      /* even shutters carry the recalibrate capability (normally set at registration) */
      add_relay(1 + 2 * i, 0, i, i % 2 == 0 ? SUPLA_CHANNEL_FLAG_CALCFG_RECALIBRATE : 0);
      add_relay(2 + 2 * i, 0, i, i % 2 == 0 ? SUPLA_CHANNEL_FLAG_CALCFG_RECALIBRATE : 0);
      fw_board.rs[i].up_relay = 2 * i; fw_board.rs[i].down_relay = 2 * i + 1;
      fw_board.nrs++;
      add_channel(i, SUPLA_CHANNELTYPE_RELAY, SUPLA_BIT_FUNC_CONTROLLINGTHEROLLERSHUTTER | SUPLA_BIT_FUNC_CONTROLLINGTHEFACADEBLIND,
                  SUPLA_CHANNELFNC_CONTROLLINGTHEROLLERSHUTTER, SUPLA_CHANNEL_FLAG_RS_SBS_AND_STOP_ACTIONS | SUPLA_CHANNEL_FLAG_RUNTIME_CHANNEL_CONFIG_UPDATE);
    }
    for (int i = 0; i < n && 2 * i + 1 < 7; i++) {
      add_input(9 + 2 * i, INPUT_FLAG_PULLUP | (i == 0 ? INPUT_FLAG_CFG_BTN : 0), INPUT_TYPE_BTN_MONOSTABLE, 1 + 2 * i, 255, 0);
      add_input(10 + 2 * i, INPUT_FLAG_PULLUP, INPUT_TYPE_BTN_MONOSTABLE, 2 + 2 * i, 255, 0);
    }
    return 0;
  }
  if (!strcmp(name, "mixed")) { /* 1 shutter (ch0) + 2 relays (ch1, ch2), action-trigger inputs */
    add_relay(1, 0, 0, 0); add_relay(2, 0, 0, 0);
    fw_board.rs[0].up_relay = 0; fw_board.rs[0].down_relay = 1; fw_board.nrs = 1;
    add_relay(3, flags, 1, SUPLA_CHANNEL_FLAG_COUNTDOWN_TIMER_SUPPORTED);
    add_relay(4, flags | RELAY_FLAG_LO_LEVEL_TRIGGER, 2, 0);
    add_channel(0, SUPLA_CHANNELTYPE_RELAY, SUPLA_BIT_FUNC_CONTROLLINGTHEROLLERSHUTTER, SUPLA_CHANNELFNC_CONTROLLINGTHEROLLERSHUTTER, 0);
    add_channel(1, SUPLA_CHANNELTYPE_RELAY, 0xffff, SUPLA_CHANNELFNC_LIGHTSWITCH, SUPLA_CHANNEL_FLAG_COUNTDOWN_TIMER_SUPPORTED);
    add_channel(2, SUPLA_CHANNELTYPE_RELAY, 0xffff, SUPLA_CHANNELFNC_POWERSWITCH, 0);
    add_input(10, INPUT_FLAG_PULLUP | INPUT_FLAG_CFG_BTN, INPUT_TYPE_BTN_MONOSTABLE, 1, 255, 0);
    add_input(11, INPUT_FLAG_PULLUP, INPUT_TYPE_BTN_MONOSTABLE, 2, 255, 0);
    add_input(12, INPUT_FLAG_PULLUP, INPUT_TYPE_BTN_MONOSTABLE, 3, 3, 0x1ff);
    add_input(13, INPUT_FLAG_PULLUP, INPUT_TYPE_BTN_BISTABLE, 4, 4, 0x1ff);
    add_channel(3, SUPLA_CHANNELTYPE_ACTIONTRIGGER, 0, SUPLA_CHANNELFNC_ACTIONTRIGGER, 0);
    add_channel(4, SUPLA_CHANNELTYPE_ACTIONTRIGGER, 0, SUPLA_CHANNELFNC_ACTIONTRIGGER, 0);
    return 0;
  }
  return -1;
}

static void dcstate(void) {
  sdk_out("DCSTATE started=%d srpc=%d registered=%d sendbuf=%d recvbuf=%d conn=%d", devconn->started, devconn->srpc != NULL,
          devconn->registered, (int)devconn->esp_send_buffer_len, (int)devconn->recvbuff_size, sdk_conn_open);
}
static char verif_email[SUPLA_EMAIL_MAXSIZE] = ""; /* `email <text>` before init: the configured account e-mail */
static int verif_rebooted = 0; /* this process continues a case after a `reboot` op: flash content was kept */
static void device_init(int registered) {
  memset(&supla_esp_cfg, 0, sizeof(supla_esp_cfg));
  memset(&supla_esp_state, 0, sizeof(supla_esp_state));
  if (verif_rebooted) {
    /* as supla_esp_cfg_init(): the state record saved by _supla_esp_save_state in the previous life */
    spi_flash_read((CFG_SECTOR + STATE_SECTOR_OFFSET) * SPI_FLASH_SEC_SIZE, (uint32 *)&supla_esp_state, sizeof(SuplaEspState));
    fprintf(stdout, "BOOTSTATE relay=");
    for (int i = 0; i < RELAY_MAX_COUNT; i++) fprintf(stdout, "%d%s", supla_esp_state.Relay[i], i + 1 < RELAY_MAX_COUNT ? "," : "");
    fprintf(stdout, " time2left=");
    for (int i = 0; i < STATE_CFG_TIME2_COUNT; i++) fprintf(stdout, "%u%s", (unsigned)supla_esp_state.Time2Left[i], i + 1 < STATE_CFG_TIME2_COUNT ? "," : "");
    fputc('\n', stdout);
  }
  memcpy(supla_esp_cfg.TAG, "SUPLA", 6);
  for (int i = 0; i < SUPLA_GUID_SIZE; i++) supla_esp_cfg.GUID[i] = 0x10 + i;
  for (int i = 0; i < SUPLA_AUTHKEY_SIZE; i++) supla_esp_cfg.AuthKey[i] = 0x40 + i;
  strcpy(supla_esp_cfg.Server, "srv.example");
  strcpy(supla_esp_cfg.Email, verif_email[0] ? verif_email : "user@example.org");
  strcpy(supla_esp_cfg.WIFI_SSID, "net");
  strcpy(supla_esp_cfg.WIFI_PWD, "secretwifi");
  for (int i = 0; i < RS_MAX_COUNT; i++) supla_esp_cfg.AdditionalTimeMargin[i] = -1;
  supla_esp_uptime_init();
  supla_esp_countdown_timer_init();
  supla_esp_gpio_init();
  supla_esp_devconn_init();
  if (registered >= 0) {
    devconn->started = 1;
    /* as supla_esp_devconn_start(): the 1 s keep-alive timer */
    os_timer_disarm(&devconn->supla_devconn_timer1);
    os_timer_setfn(&devconn->supla_devconn_timer1, (os_timer_func_t *)supla_esp_devconn_timer1_cb, NULL);
    os_timer_arm(&devconn->supla_devconn_timer1, 1000, 1);
    supla_esp_devconn_connect_cb(NULL); /* supla_esp_srpc_init() */
    devconn->registered = registered;
    devconn->server_activity_timeout = ACTIVITY_TIMEOUT;
    /* a device that is up and has just heard from the server (at power-on the counter is ~0 and
       last_response = 0 is the 60 s connect grace; scenarios start mid-life) */
    devconn->last_response = devconn->last_sent = uptime_sec();
  }
}

int main(int argc, char **argv) {
  static unsigned char buf[70000];
  static unsigned char frame[70000];
  (void)argc;
  if (getenv("VERIF_FLASH_IMG")) { /* second life of a case: see the `reboot` op */
    FILE *f = fopen(getenv("VERIF_FLASH_IMG"), "rb");
    if (f) { if (fread(sdk_flash, 1, sizeof(sdk_flash), f) != sizeof(sdk_flash)) memset(sdk_flash, 0xff, sizeof(sdk_flash)); fclose(f); }
    unlink(getenv("VERIF_FLASH_IMG"));
    unsetenv("VERIF_FLASH_IMG");
    verif_rebooted = 1;
    if (getenv("VERIF_RST_REASON")) { sdk_rst_info.reason = atoi(getenv("VERIF_RST_REASON")); unsetenv("VERIF_RST_REASON"); }
  }
  sdk_log_echo = 1;
  sdk_restart_armed = 1;
  sdk_sent_hook = sent_hook;
  board_preset("relay2", 0);
  int inited = 0;
  while (ops_next()) {
    if (sdk_dead) { ops_done(); continue; }
    if (setjmp(sdk_restart_jmp) == 0) {
      const char *op = ops_tok[0];
      if (inited && (!strcmp(op, "msg") || !strcmp(op, "input"))) sdk_out("NOW %llu", (unsigned long long)sdk_now_us);
      if (!strcmp(op, "reboot")) {
        /* power cycle: RAM is lost (a fresh process image), the flash content stays. `reboot save` lets the 1 s
           delayed state save run first only if it is due; nothing is saved here on purpose. */
        const char *tmp = getenv("TMPDIR") ? getenv("TMPDIR") : "/tmp";
        char fpath[512], opath[512];
        snprintf(fpath, sizeof(fpath), "%s/verif-flash-XXXXXX", tmp);
        snprintf(opath, sizeof(opath), "%s/verif-ops-XXXXXX", tmp);
        int ffd = mkstemp(fpath), ofd = mkstemp(opath);
        if (ffd < 0 || ofd < 0) { sdk_out("BADOP"); }
        else {
          if (write(ffd, sdk_flash, sizeof(sdk_flash)) != (ssize_t)sizeof(sdk_flash)) sdk_out("BADOP");
          close(ffd);
          size_t n;
          while ((n = fread(buf, 1, sizeof(buf), stdin)) > 0) if (write(ofd, buf, n) != (ssize_t)n) break;
          lseek(ofd, 0, SEEK_SET);
          dup2(ofd, 0);
          close(ofd);
          unlink(opath);
          setenv("VERIF_FLASH_IMG", fpath, 1);
          if (ops_ntok >= 2) setenv("VERIF_RST_REASON", ops_tok[1], 1);   /* `reboot 4`: a software restart, not a power cycle */
          sdk_out("REBOOT");
          ops_done();
          execv("/proc/self/exe", argv);
          perror("execv");
          exit(3);
        }
      } else if (!strcmp(op, "boot") && ops_ntok == 2) {
        sdk_boot_cnt = (uint32_t)strtoul(ops_tok[1], 0, 10);
      } else if (!strcmp(op, "board") && ops_ntok >= 2) {
        if (board_preset(ops_tok[1], ops_ntok > 2 ? atoi(ops_tok[2]) : 0)) sdk_out("BADOP");
      } else if (!strcmp(op, "inpin") && ops_ntok == 3 && !inited) { /* input i of the board sits on another GPIO (0..15) */
        int i = atoi(ops_tok[1]);
        if (i >= 0 && i < 7) fw_board.inputs[i].gpio = atoi(ops_tok[2]);
      } else if (!strcmp(op, "email") && ops_ntok == 2 && strlen(ops_tok[1]) < SUPLA_EMAIL_MAXSIZE) {
        strcpy(verif_email, ops_tok[1]);
      } else if (!strcmp(op, "motor") && ops_ntok == 5) {
        fw_board.motor_model = atoi(ops_tok[1]); fw_board.motor_startup_ms = atoi(ops_tok[2]);
        fw_board.motor_up_ms = atoi(ops_tok[3]); fw_board.motor_down_ms = atoi(ops_tok[4]);
      } else if (!strcmp(op, "init")) {
        device_init(ops_ntok > 1 ? atoi(ops_tok[1]) : 1);
        inited = 1;
        snapshot(0);
      } else if (!strcmp(op, "inlevel") && ops_ntok == 3 && !inited) { /* level of an input pin at power-on */
        int pin = atoi(ops_tok[1]);
        if (pin >= 0 && pin < 16) sdk_gpio_in = (sdk_gpio_in & ~(1u << pin)) | ((atoi(ops_tok[2]) ? 1u : 0u) << pin);
      } else if (!strcmp(op, "relflags") && ops_ntok == 4 && !inited) { /* relay i: flags, channel flags */
        int i = atoi(ops_tok[1]);
        if (i >= 0 && i < 8) { fw_board.relays[i].flags = atoi(ops_tok[2]); fw_board.relays[i].channel_flags = strtoul(ops_tok[3], 0, 10); }
      } else if (!strcmp(op, "intype") && ops_ntok == 3 && !inited) {
        int i = atoi(ops_tok[1]);
        if (i >= 0 && i < 7) fw_board.inputs[i].type = atoi(ops_tok[2]);
      } else if (!strcmp(op, "incap") && ops_ntok == 4 && !inited) { /* input i: action-trigger channel, capabilities */
        int i = atoi(ops_tok[1]);
        if (i >= 0 && i < 7) { fw_board.inputs[i].channel = atoi(ops_tok[2]); fw_board.inputs[i].at_cap = strtoul(ops_tok[3], 0, 10); }
      } else if (!strcmp(op, "inrelay") && ops_ntok == 3 && !inited) { /* input i: gpio of the relay it controls (255 none) */
        int i = atoi(ops_tok[1]);
        if (i >= 0 && i < 7) fw_board.inputs[i].relay_gpio = atoi(ops_tok[2]);
      } else if (!strcmp(op, "inlog") && ops_ntok == 2) {
        fw_hook_input_log = atoi(ops_tok[1]);
      } else if (!strcmp(op, "attrig") && ops_ntok == 3 && inited) { /* the server's list of active actions for input i */
        int i = atoi(ops_tok[1]);
        if (i < 0 || i >= INPUT_MAX_COUNT) sdk_out("BADOP");
        else {
          supla_esp_input_set_active_triggers(&supla_input_cfg[i], (unsigned)strtoul(ops_tok[2], 0, 10));
          sdk_out("ATCFG %d active=%u max=%u relay=%u now=%llu", i, (unsigned)supla_input_cfg[i].active_triggers, supla_input_cfg[i].max_clicks,
                  supla_input_cfg[i].relay_gpio_id, (unsigned long long)sdk_now_us);
        }
      } else if (!strcmp(op, "attimes") && ops_ntok == 3 && inited) { /* hold and multi-click time in ms */
        supla_esp_input_set_hold_time_ms(atoi(ops_tok[1]));
        supla_esp_input_set_multiclick_time_ms(atoi(ops_tok[2]));
      } else if (!strcmp(op, "calllog") && ops_ntok == 2) {
        verif_call_log = atoi(ops_tok[1]); fw_hook_relay_log = verif_call_log;
      } else if (!strcmp(op, "inflags") && ops_ntok == 3 && !inited) {
        int i = atoi(ops_tok[1]);
        if (i >= 0 && i < 7) fw_board.inputs[i].flags = atoi(ops_tok[2]);
      } else if (!inited) {
        sdk_out("BADOP");
      } else if (!strcmp(op, "rstimes") && ops_ntok == 6) { /* idx open close tilt tilttype */
        int i = atoi(ops_tok[1]);
        if (i >= 0 && i < RS_MAX_COUNT) {
          supla_esp_cfg.Time1[i] = atoi(ops_tok[2]); supla_esp_cfg.Time2[i] = atoi(ops_tok[3]);
          supla_esp_cfg.Time3[i] = atoi(ops_tok[4]); supla_esp_cfg.TiltControlType[i] = atoi(ops_tok[5]);
        }
        snapshot(0);
      } else if (!strcmp(op, "rspos") && ops_ntok == 4) {
        int i = atoi(ops_tok[1]);
        if (i >= 0 && i < RS_MAX_COUNT) { supla_esp_state.rs_position[i] = atoi(ops_tok[2]); supla_esp_state.tilt[i] = atoi(ops_tok[3]); }
        snapshot(0);
      } else if (!strcmp(op, "msg") && ops_ntok == 3) {
        long n = ops_hex(ops_tok[2], buf, sizeof(buf));
        if (n < 0 || n > SUPLA_MAX_DATA_SIZE) sdk_out("BADOP");
        else {
          static unsigned rr = 100;
          unsigned call = (unsigned)strtoul(ops_tok[1], 0, 10), ds = (unsigned)n;
          size_t k = 0;
          memcpy(frame, "SUPLA", 5); k = 5;
          frame[k++] = SUPLA_PROTO_VERSION;
          rr++;
          memcpy(frame + k, &rr, 4); k += 4;
          memcpy(frame + k, &call, 4); k += 4;
          memcpy(frame + k, &ds, 4); k += 4;
          memcpy(frame + k, buf, n); k += n;
          memcpy(frame + k, "SUPLA", 5); k += 5;
          /* flush whatever earlier timers queued, so that effects below belong to this message */
          for (int t = 0; t < 8 && !sdk_dead; t++) supla_esp_devconn_iterate(NULL);
          snapshot(1);
          sdk_out("MSGSTART");
          /* hand it over in segments the staging buffer accepts, iterating in between */
          size_t off = 0;
          while (off < k && !sdk_dead) {
            size_t c = k - off > 1000 ? 1000 : k - off;
            supla_esp_devconn_recv_cb(NULL, (char *)frame + off, (unsigned short)c);
            off += c;
            for (int t = 0; t < 5 && devconn->recvbuff_size > 0; t++) supla_esp_devconn_iterate(NULL);
          }
          for (int t = 0; t < 8; t++) supla_esp_devconn_iterate(NULL);
        }
      } else if (!strcmp(op, "adv") && ops_ntok == 2) {
        sdk_advance_us((uint64_t)strtoull(ops_tok[1], 0, 10) * 1000ull);
      } else if (!strcmp(op, "mvpos") && ops_ntok >= 10) {
        /* C09 probe: idx full_ms up pos tilt tilttype tilttime_ms time_us dt_us...  -> the real
           supla_esp_gpio_rs_move_position, the carried time handed from call to call */
        int i = atoi(ops_tok[1]);
        if (i < 0 || i >= RS_MAX_COUNT || !supla_rs_cfg[i].up) sdk_out("BADOP");
        else {
          supla_roller_shutter_cfg_t *r = &supla_rs_cfg[i];
          unsigned full_ms = strtoul(ops_tok[2], 0, 10); int up = atoi(ops_tok[3]);
          *r->position = atoi(ops_tok[4]); *r->tilt = atoi(ops_tok[5]);
          *r->tilt_type = atoi(ops_tok[6]); *r->tilt_change_time = strtoul(ops_tok[7], 0, 10);
          unsigned tm = strtoul(ops_tok[8], 0, 10);
          r->rs_time_margin = 110;
          sdk_quiet_gpio = 1;
          for (int k = 9; k < ops_ntok; k++) {
            tm += strtoul(ops_tok[k], 0, 10);
            supla_esp_gpio_rs_move_position(r, full_ms, &tm, up, false);
            sdk_out("MV %d %d %u", *r->position, *r->tilt, tm);
          }
          sdk_quiet_gpio = 0;
          snapshot(0);
        }
      } else if (!strcmp(op, "acprobe") && ops_ntok == 7) {
        /* C10 probe: idx step up_time_us down_time_us inMove closing_ms -> one call of the real
           supla_esp_gpio_rs_autocalibrate from position 50, no flags; relay requests seen through the set_relay hook */
        int i = atoi(ops_tok[1]);
        if (i < 0 || i >= RS_MAX_COUNT || !supla_rs_cfg[i].up) sdk_out("BADOP");
        else {
          supla_roller_shutter_cfg_t *r = &supla_rs_cfg[i];
          r->autoCal_step = atoi(ops_tok[2]);
          r->up_time = strtoul(ops_tok[3], 0, 10); r->down_time = strtoul(ops_tok[4], 0, 10);
          *r->auto_closing_time = strtoul(ops_tok[6], 0, 10); *r->auto_opening_time = 0;
          *r->position = 50; *r->tilt = 0; r->flags = 0;
          int saved = fw_hook_rs_log; fw_hook_rs_log = 1;
          sdk_quiet_gpio = 1;
          bool ret = supla_esp_gpio_rs_autocalibrate(r, atoi(ops_tok[5]) != 0);
          sdk_quiet_gpio = 0;
          fw_hook_rs_log = saved;
          sdk_out("AC %d %d %u %u %d %d", ret ? 1 : 0, r->autoCal_step, (unsigned)*r->auto_closing_time, (unsigned)*r->auto_opening_time,
                  *r->position, (r->flags & RS_VALUE_FLAG_CALIBRATION_FAILED) ? 1 : 0);
          /* leave a quiet shutter behind for the next probe */
          r->autoCal_step = 0; r->up_time = r->down_time = 0;
          supla_esp_gpio_rs_set_relay(r, RS_RELAY_OFF, 1, 0);
          sdk_advance_us(1500000);
        }
      } else if (!strcmp(op, "rswitch") && ops_ntok == 3) { /* a local switch request: port, hi (255 = toggle) */
        supla_esp_gpio_relay_switch(atoi(ops_tok[1]), (unsigned char)atoi(ops_tok[2]));
      } else if (!strcmp(op, "readcost") && ops_ntok == 2) { /* time passes while code runs: us per reading of the counter */
        sdk_read_cost_us = atoi(ops_tok[1]);
      } else if (!strcmp(op, "rscancel") && ops_ntok == 2) { /* forget the task of shutter i (set-up between requests) */
        int i = atoi(ops_tok[1]);
        if (i >= 0 && i < RS_MAX_COUNT && supla_rs_cfg[i].up) supla_esp_gpio_rs_cancel_task(&supla_rs_cfg[i]);
        snapshot(0);
      } else if (!strcmp(op, "rsmargin") && ops_ntok == 3) { /* AdditionalTimeMargin of shutter i as the channel config sets it */
        int i = atoi(ops_tok[1]);
        if (i >= 0 && i < RS_MAX_COUNT && supla_rs_cfg[i].up) {
          supla_esp_cfg.AdditionalTimeMargin[i] = atoi(ops_tok[2]);
          supla_esp_gpio_rs_set_time_margin(&supla_rs_cfg[i], supla_esp_cfg.AdditionalTimeMargin[i]);
        }
        snapshot(0);
      } else if (!strcmp(op, "physpos") && ops_ntok == 3) { /* motor model 3: physical position of shutter i in percent closed */
        int i = atoi(ops_tok[1]);
        if (i >= 0 && i < 8) fw_phys_pos[i] = atof(ops_tok[2]) / 100.0 * (fw_board.motor_down_ms > 0 ? fw_board.motor_down_ms : 1);
      } else if (!strcmp(op, "physshow") && ops_ntok == 2) {
        int i = atoi(ops_tok[1]);
        if (i >= 0 && i < 8) sdk_out("PHYS %d %.2f", i, 100.0 * fw_phys_pos[i] / (fw_board.motor_down_ms > 0 ? fw_board.motor_down_ms : 1));
      } else if (!strcmp(op, "rsmanual") && ops_ntok == 2) { /* take the 10 ms accounting timer of shutter i into our hands */
        int i = atoi(ops_tok[1]);
        if (i >= 0 && i < RS_MAX_COUNT) os_timer_disarm(&supla_rs_cfg[i].timer);
      } else if (!strcmp(op, "rstick") && ops_ntok == 3) { /* advance dt us (other timers run), then one accounting callback */
        int i = atoi(ops_tok[1]);
        sdk_advance_us((uint64_t)strtoull(ops_tok[2], 0, 10));
        if (i >= 0 && i < RS_MAX_COUNT && supla_rs_cfg[i].up) {
          unsigned long long t0 = sdk_now_us;
          supla_esp_gpio_rs_timer_cb(&supla_rs_cfg[i]);
          sdk_out("RSTICK %d t0=%llu pos=%d tilt=%d up=%d down=%d t=%llu ts=%d dir=%d upT=%u downT=%u", i, t0, *supla_rs_cfg[i].position, *supla_rs_cfg[i].tilt,
                  __supla_esp_gpio_relay_is_hi(supla_rs_cfg[i].up), __supla_esp_gpio_relay_is_hi(supla_rs_cfg[i].down),
                  (unsigned long long)sdk_now_us, supla_rs_cfg[i].task.state, supla_rs_cfg[i].task.direction,
                  supla_rs_cfg[i].up_time, supla_rs_cfg[i].down_time);
        }
      } else if (!strcmp(op, "advus") && ops_ntok == 2) {
        sdk_advance_us((uint64_t)strtoull(ops_tok[1], 0, 10));
      } else if (!strcmp(op, "input") && ops_ntok == 3) {
        sdk_input_set(atoi(ops_tok[1]), atoi(ops_tok[2]));
      } else if (!strcmp(op, "reg") && ops_ntok == 2) {
        devconn->registered = atoi(ops_tok[1]);
      } else if (!strcmp(op, "espclear")) {
        sdk_esp_script_len = sdk_esp_script_pos = 0;
      } else if (!strcmp(op, "esp")) {
        for (int i = 1; i < ops_ntok && sdk_esp_script_len < SDK_ESP_SCRIPT_MAX; i++)
          sdk_esp_script[sdk_esp_script_len++] = atoi(ops_tok[i]);
      } else if (!strcmp(op, "inflags") && ops_ntok == 3) { /* before init: flags of board input i */
        int i = atoi(ops_tok[1]);
        if (i >= 0 && i < 7) fw_board.inputs[i].flags = atoi(ops_tok[2]);
      } else if (!strcmp(op, "t1") && ops_ntok == 5) { /* T now last_sent last_response */
        if (!devconn->srpc) { supla_esp_devconn_connect_cb(NULL); }
        devconn->registered = 1;
        devconn->server_activity_timeout = atoi(ops_tok[1]);
        set_uptime_sec(strtoull(ops_tok[2], 0, 10));
        devconn->last_sent = (unsigned)strtoull(ops_tok[3], 0, 10);
        devconn->last_response = (unsigned)strtoull(ops_tok[4], 0, 10);
        int before = srpc_out_queue_item_count(devconn->srpc);
        sdk_quiet_gpio = 1;
        supla_esp_devconn_timer1_cb(NULL);
        sdk_quiet_gpio = 0;
        if (!devconn->srpc) sdk_out("DECISION reconnect");
        else if (srpc_out_queue_item_count(devconn->srpc) > before) sdk_out("DECISION ping");
        else sdk_out("DECISION none");
        if (devconn->srpc) { for (int t = 0; t < 4; t++) supla_esp_devconn_iterate(NULL); }
      } else if (!strcmp(op, "wd") && ops_ntok == 5) { /* T now last_response next_challenge */
        if (!devconn->srpc) { supla_esp_devconn_connect_cb(NULL); }
        devconn->registered = 1;
        devconn->server_activity_timeout = atoi(ops_tok[1]);
        set_uptime_sec(strtoull(ops_tok[2], 0, 10));
        devconn->last_response = (unsigned)strtoull(ops_tok[3], 0, 10);
        devconn->next_wd_soft_timeout_challenge = (unsigned)strtoull(ops_tok[4], 0, 10);
        sdk_quiet_gpio = 1;
        supla_esp_devconn_watchdog_cb(NULL);
        sdk_quiet_gpio = 0;
        sdk_out(devconn->srpc ? "DECISION none" : "DECISION reconnect");
      } else if (!strcmp(op, "pingreply")) { /* the server answers a ping that reached the wire */
        sdk_sent_hook = sent_hook;
        if ((ping_pending || ops_ntok == 2) && devconn->srpc) { /* "pingreply force": an unsolicited server frame */
          ping_pending = 0;
          unsigned char f[64]; unsigned rr = 7777, call = 50, ds = 16; size_t k = 0;
          memcpy(f, "SUPLA", 5); k = 5; f[k++] = SUPLA_PROTO_VERSION;
          memcpy(f + k, &rr, 4); k += 4; memcpy(f + k, &call, 4); k += 4; memcpy(f + k, &ds, 4); k += 4;
          memset(f + k, 0, 16); k += 16; memcpy(f + k, "SUPLA", 5); k += 5;
          sdk_out("PINGREPLY");
          supla_esp_devconn_recv_cb(NULL, (char *)f, (unsigned short)k);
        }
      } else if (!strcmp(op, "cdset") && ops_ntok == 5) { /* idx channel left last_ms */
        int i = atoi(ops_tok[1]);
        if (i >= 0 && i < RELAY_MAX_COUNT) {
          countdown_timer_vars.items[i].channel_number = atoi(ops_tok[2]);
          countdown_timer_vars.items[i].time_left_ms = (unsigned)strtoull(ops_tok[3], 0, 10);
          countdown_timer_vars.items[i].last_time = strtoull(ops_tok[4], 0, 10);
          countdown_timer_vars.items[i].gpio_id = 200;
        }
      } else if (!strcmp(op, "setdur") && ops_ntok == 5) { /* channel value duration published-remaining: the decision of
                                                               supla_esp_gpio_relay_set_duration_timer, observed on the item table */
        int c = atoi(ops_tok[1]);
        if (c >= 0 && c < STATE_CFG_TIME2_COUNT) supla_esp_state.Time2Left[c] = (unsigned)strtoul(ops_tok[4], 0, 10);
        supla_esp_gpio_relay_set_duration_timer(c, atoi(ops_tok[2]), atoi(ops_tok[3]), 0);
        int found = 0;
        for (int i = 0; i < RELAY_MAX_COUNT; i++)
          if (countdown_timer_vars.items[i].channel_number == c && countdown_timer_vars.items[i].time_left_ms > 0) {
            sdk_out("DUR %u 1 %d", countdown_timer_vars.items[i].time_left_ms, countdown_timer_vars.items[i].target_value[0]);
            found = 1;
          }
        if (!found) sdk_out("DUR 0 0 -");
        supla_esp_countdown_timer_disarm(c);
      } else if (!strcmp(op, "cdcb") && ops_ntok == 2) { /* callback at uptime ms */
        void *saved = countdown_timer_vars.finish_cb;
        supla_esp_countdown_set_finish_cb(cd_finish_probe);
        set_uptime_usec(strtoull(ops_tok[1], 0, 10) * 1000ull + 7);
        supla_esp_countdown_timer_cb(NULL);
        countdown_timer_vars.finish_cb = saved;
        for (int i = 0; i < RELAY_MAX_COUNT; i++)
          if (countdown_timer_vars.items[i].channel_number != 255)
            sdk_out("ITEM %d %u %u", i, countdown_timer_vars.items[i].channel_number, countdown_timer_vars.items[i].time_left_ms);
        sdk_out("DELAY %u", countdown_timer_vars.delay_ms);
        fprintf(stdout, "T2L");
        for (int i = 0; i < STATE_CFG_TIME2_COUNT; i++) fprintf(stdout, " %u", (unsigned)supla_esp_state.Time2Left[i]);
        fputc('\n', stdout);
      } else if (!strcmp(op, "debprobe") && ops_ntok == 3) { /* input index, sampled levels as a 0/1 string */
        int i = atoi(ops_tok[1]);
        if (i < 0 || i >= INPUT_MAX_COUNT || supla_input_cfg[i].gpio_id > 15) sdk_out("BADOP");
        else {
          supla_input_cfg_t *c = &supla_input_cfg[i];
          int pull = (c->flags & INPUT_FLAG_PULLUP) ? 1 : 0;
          sdk_out("INSTATE %d", pull ? !c->last_state : c->last_state);
          sdk_quiet_gpio = 1;
          supla_esp_input_start_debounce_timer(c);
          for (const char *b = ops_tok[2]; *b; b++) {
            if (*b == '1') sdk_gpio_in |= (1u << c->gpio_id); else sdk_gpio_in &= ~(1u << c->gpio_id);
            uint8 before = c->last_state;
            if (c->debounce_step != 0 && c->debounce_timer.timer_func) c->debounce_timer.timer_func(c->debounce_timer.timer_arg);
            sdk_out("STEP %u %u", c->debounce_step, c->debounce_step ? c->debounce_value : 0);
            if (c->last_state != before) sdk_out("NOTIFY %d", pull ? !c->last_state : c->last_state);
          }
          sdk_quiet_gpio = 0;
        }
      } else if (!strcmp(op, "netstart")) { /* C04: the real start path (wifi -> dns -> tcp) */
        sdk_sent_requires_open = 1;
        supla_esp_devconn_start();
        dcstate();
      } else if (!strcmp(op, "wifi") && ops_ntok == 2) { /* station status as the SDK reports it (5 = GOT_IP) */
        sdk_wifi_status = atoi(ops_tok[1]);
      } else if (!strcmp(op, "dnsreply") && ops_ntok == 2) { /* a.b.c.d or none */
        if (!sdk_dns_cb) sdk_out("NODNS");
        else {
          dns_found_callback cb = sdk_dns_cb; sdk_dns_cb = NULL;
          if (!strcmp(ops_tok[1], "none")) cb(sdk_dns_name, NULL, sdk_dns_arg);
          else { ip_addr_t ip; ip.addr = ipaddr_addr(ops_tok[1]); cb(sdk_dns_name, &ip, sdk_dns_arg); }
        }
        dcstate();
      } else if (!strcmp(op, "tcpup")) { /* the SDK reports the requested connection as established */
        if (sdk_conn_open == 1 && sdk_disc_pending != 2 && sdk_last_conn && sdk_last_conn->proto.tcp && sdk_last_conn->proto.tcp->connect_callback) {
          sdk_conn_open = 2;
          sdk_out("TCPUP");
          sdk_last_conn->proto.tcp->connect_callback(sdk_last_conn);
        } else sdk_out("NOPENDINGCONNECT");
        dcstate();
      } else if (!strcmp(op, "tcpdown")) { /* the connection is lost / closed by the peer - or the close the firmware asked for is
                                              reported (the disconnect callback of a local espconn_disconnect comes later, not from
                                              inside the call) */
        if ((sdk_conn_open == 2 || (sdk_conn_open != 2 && sdk_disc_pending == 2)) && sdk_last_conn && sdk_last_conn->proto.tcp &&
            sdk_last_conn->proto.tcp->disconnect_callback) {
          if (sdk_conn_open == 2) sdk_conn_open = 0;   /* (a connect requested meanwhile stays requested) */
          sdk_disc_pending = 0;
          sdk_out("TCPDOWN");
          sdk_last_conn->proto.tcp->disconnect_callback(sdk_last_conn);
        } else sdk_out("NOTCONNECTED");
        dcstate();
      } else if (!strcmp(op, "recv") && ops_ntok == 2) { /* raw bytes from the server on the open connection */
        long n = ops_hex(ops_tok[1], buf, sizeof(buf));
        if (n < 0) sdk_out("BADOP");
        else if (!(sdk_conn_open == 2 || (sdk_conn_open != 2 && sdk_disc_pending == 2)) || !sdk_last_conn || !sdk_last_conn->recv_callback)
          sdk_out("NOTCONNECTED");   /* (data still arrives on an established connection the firmware has asked to close, until the close is reported) */
        else sdk_last_conn->recv_callback(sdk_last_conn, (char *)buf, (unsigned short)n);
        dcstate();
      } else if (!strcmp(op, "gotip")) { /* what supla_esp_wifi.c reports on a status change to GOT_IP */
        supla_esp_devconn_on_wifi_status_changed(STATION_GOT_IP);
        dcstate();
      } else if (!strcmp(op, "dnsfound") && ops_ntok == 2) { /* final DNS outcome: a.b.c.d or none */
        if (!devconn->resolving_started) sdk_out("NOTRESOLVING");
        else {
          sdk_dns_cb = NULL;
          if (!strcmp(ops_tok[1], "none")) supla_esp_devconn_dns__found(NULL);
          else { ip_addr_t ip; ip.addr = ipaddr_addr(ops_tok[1]); supla_esp_devconn_dns__found(&ip); }
        }
        dcstate();
      } else if (!strcmp(op, "fire") && ops_ntok == 2) { /* run one of devconn's timers now */
        if (!strcmp(ops_tok[1], "iterate")) {
          if (devconn->srpc) supla_esp_devconn_iterate(NULL); else sdk_out("NOTARMED");
        } else if (!strcmp(ops_tok[1], "recon")) {
          if (sdk_timer_armed(&devconn->reconnect_delay_timer)) { os_timer_disarm(&devconn->reconnect_delay_timer); supla_esp_devconn__reconnect(NULL); }
          else sdk_out("NOTARMED");
        } else if (!strcmp(ops_tok[1], "stop")) {
          if (sdk_timer_armed(&devconn->stop_delay_timer)) { os_timer_disarm(&devconn->stop_delay_timer); supla_esp_devconn__stop(NULL); }
          else sdk_out("NOTARMED");
        } else if (!strcmp(ops_tok[1], "timer1")) {
          supla_esp_devconn_timer1_cb(NULL);
        } else sdk_out("BADOP");
        dcstate();
      } else if (!strcmp(op, "localev") && ops_ntok == 2) { /* the device wants to talk: 0 value, 1 extended value, 2 action trigger */
        int k = atoi(ops_tok[1]);
        if (k == 0) supla_esp_channel_value_changed(0, 1);
        else if (k == 1) { TSuplaChannelExtendedValue ev; memset(&ev, 0, sizeof(ev)); supla_esp_channel_extendedvalue_changed(0, &ev); }
        else supla_esp_devconn_send_action_trigger(0, 1);
        if (supla_esp_devconn_is_registered()) supla_esp_devconn_iterate(NULL);   /* what an accepted async call triggers: flush */
        dcstate();
      } else if (!strcmp(op, "dcstate")) {
        dcstate();
      } else if (!strcmp(op, "incap") && ops_ntok == 4 && !inited) { /* input i: action-trigger channel, capabilities */
        int i = atoi(ops_tok[1]);
        if (i >= 0 && i < 7) { fw_board.inputs[i].channel = atoi(ops_tok[2]); fw_board.inputs[i].at_cap = strtoul(ops_tok[3], 0, 10); }
      } else if (!strcmp(op, "inrelay") && ops_ntok == 3 && !inited) { /* input i: gpio of the relay it controls (255 none) */
        int i = atoi(ops_tok[1]);
        if (i >= 0 && i < 7) fw_board.inputs[i].relay_gpio = atoi(ops_tok[2]);
      } else if (!strcmp(op, "inlog") && ops_ntok == 2) {
        fw_hook_input_log = atoi(ops_tok[1]);
      } else if (!strcmp(op, "attrig") && ops_ntok == 3 && inited) { /* the server's list of active actions for input i */
        int i = atoi(ops_tok[1]);
        if (i < 0 || i >= INPUT_MAX_COUNT) sdk_out("BADOP");
        else {
          supla_esp_input_set_active_triggers(&supla_input_cfg[i], (unsigned)strtoul(ops_tok[2], 0, 10));
          sdk_out("ATCFG %d active=%u max=%u relay=%u now=%llu", i, (unsigned)supla_input_cfg[i].active_triggers, supla_input_cfg[i].max_clicks,
                  supla_input_cfg[i].relay_gpio_id, (unsigned long long)sdk_now_us);
        }
      } else if (!strcmp(op, "attimes") && ops_ntok == 3 && inited) { /* hold and multi-click time in ms */
        supla_esp_input_set_hold_time_ms(atoi(ops_tok[1]));
        supla_esp_input_set_multiclick_time_ms(atoi(ops_tok[2]));
      } else if (!strcmp(op, "calllog") && ops_ntok == 2) {
        verif_call_log = atoi(ops_tok[1]); fw_hook_relay_log = verif_call_log;
      } else if (!strcmp(op, "staircase") && ops_ntok == 4) { /* channel Time2(ms) StaircaseButtonType */
        int c = atoi(ops_tok[1]);
        if (c >= 0 && c < CFG_TIME2_COUNT) supla_esp_cfg.Time2[c] = atoi(ops_tok[2]);
        supla_esp_cfg.StaircaseButtonType = atoi(ops_tok[3]);
        snapshot(0);
      } else if (!strcmp(op, "relstate")) {
        for (int i = 0; i < RELAY_MAX_COUNT; i++)
          if (supla_relay_cfg[i].gpio_id != 255)
            sdk_out("RELSTATE %d pin=%d out=%d logical=%d", i, supla_relay_cfg[i].gpio_id,
                    (int)((sdk_gpio_out >> supla_relay_cfg[i].gpio_id) & 1), __supla_esp_gpio_relay_is_hi(&supla_relay_cfg[i]));
      } else if (!strcmp(op, "rslog") && ops_ntok == 2) {
        fw_hook_rs_log = atoi(ops_tok[1]);
        for (int i = 0; i < RS_MAX_COUNT; i++)
          if (supla_rs_cfg[i].up && supla_rs_cfg[i].down)
            sdk_out("RSSTAMP %d %u %u %d %d %u %u", i, supla_rs_cfg[i].start_time, supla_rs_cfg[i].stop_time,
                    __supla_esp_gpio_relay_is_hi(supla_rs_cfg[i].up), __supla_esp_gpio_relay_is_hi(supla_rs_cfg[i].down),
                    supla_rs_cfg[i].up->gpio_id, supla_rs_cfg[i].down->gpio_id);
      } else if (!strcmp(op, "sentbytes") && ops_ntok == 2) {
        sdk_log_sent_bytes = atoi(ops_tok[1]);
      } else {
        sdk_out("BADOP");
      }
      if (inited && !sdk_dead) snapshot(1);
    } else if (!strcmp(ops_tok[0], "wd")) {
      sdk_out("DECISION restart");
      sdk_dead = 0; /* decision probes continue after the (simulated) restart */
      sdk_quiet_gpio = 0;
    }
    if (fw_hook_input_log) sdk_out("TNOW %llu", (unsigned long long)sdk_now_us);
    ops_done();
  }
  return 0;
}
