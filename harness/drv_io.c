/* drv_io — C01/C02 driver.  Real supla_esp_devconn.c (included, so that the static
 * `devconn` is reachable), real proto.c/srpc.c/lck.c.  The srpc instance is created
 * with the firmware's own data_read/data_write; the remote-call handler only logs
 * what was delivered (popped from the in-queue exactly as srpc_getdata does).
 * VERIF-INCLUDES: supla_esp_devconn.c */
#include "sdk/sdk.h"
#include "sdk/fwglue.h"
#include "ops.h"

#include "supla_esp_devconn.c"

char srpc_in_queue_pop(void *srpc, TSuplaDataPacket *sdp, unsigned _supla_int_t rr_id);

static void on_call(void *_srpc, unsigned _supla_int_t rr_id,
                    unsigned _supla_int_t call_id, void *user, unsigned char ver) {
  static TSuplaDataPacket sdp;
  if (srpc_in_queue_pop(_srpc, &sdp, 0) == SUPLA_RESULT_TRUE) {
    unsigned ds = sdp.data_size;
    if (ds > SUPLA_MAX_DATA_SIZE) ds = SUPLA_MAX_DATA_SIZE; /* print bound only */
    fprintf(stdout, "DELIVER %u %u %u %u ", (unsigned)sdp.version,
            (unsigned)sdp.rr_id, (unsigned)sdp.call_id, (unsigned)sdp.data_size);
    if (ds) sdk_out_hex(sdp.data, ds); else fputc('-', stdout);
    fputc('\n', stdout);
    if (rr_id != sdp.rr_id || call_id != sdp.call_id || ver != sdp.version)
      sdk_out("CBMISMATCH %u %u %u", rr_id, call_id, ver);
  } else {
    sdk_out("DELIVER-EMPTY");
  }
}

/* the read callback of the protocol layer, logged: how many bytes went into its input buffer */
static _supla_int_t logged_read(void *b, _supla_int_t count, void *u) {
  _supla_int_t r = supla_esp_data_read(b, count, u);
  if (r > 0) sdk_out("READ %d", (int)r);
  return r;
}

int main(void) {
  static unsigned char buf[70000];
  sdk_log_echo = 1;
  supla_esp_devconn_init();
  /* as supla_esp_srpc_init(), with a logging handler */
  TsrpcParams p;
  srpc_params_init(&p);
  p.data_read = &logged_read;
  p.data_write = &supla_esp_data_write;
  p.on_remote_call_received = &on_call;
  devconn->srpc = srpc_init(&p);
  srpc_set_proto_version(devconn->srpc, ESP8266_SUPLA_PROTO_VERSION);
  devconn->registered = 1;
  sdk_restart_armed = 1;

  while (ops_next()) {
    if (sdk_dead) { ops_done(); continue; }
    if (setjmp(sdk_restart_jmp) == 0) {
      if (!strcmp(ops_tok[0], "recv") && ops_ntok == 2) {
        long n = ops_hex(ops_tok[1], buf, sizeof(buf));
        if (n < 0) { sdk_out("BADOP"); }
        else supla_esp_devconn_recv_cb(NULL, (char *)buf, (unsigned short)n);
      } else if (!strcmp(ops_tok[0], "tick")) {
        supla_esp_devconn_iterate(NULL);
      } else if (!strcmp(ops_tok[0], "call") && ops_ntok == 3) {
        long n = ops_hex(ops_tok[2], buf, sizeof(buf));
        if (n < 0) { sdk_out("BADOP"); }
        else {
          unsigned cid = (unsigned)strtoul(ops_tok[1], 0, 10);
          _supla_int_t r;
          /* a payload that is a well-formed message of one of the calls the firmware issues through a typed sender goes through
             that sender (the same frame has to come out as from the generic call) */
          if (cid == SUPLA_DS_CALL_DEVICE_CHANNEL_EXTENDEDVALUE_CHANGED && n >= 6 && buf[2] + 256u * buf[3] + 65536u * buf[4] == (unsigned)(n - 6) &&
              buf[5] == 0 && n - 6 <= SUPLA_CHANNELEXTENDEDVALUE_SIZE && n - 6 > 0) {
            static TSuplaChannelExtendedValue ev;
            memset(&ev, 0, sizeof(ev));
            ev.type = (char)buf[1]; ev.size = (unsigned)(n - 6); memcpy(ev.value, buf + 6, n - 6);
            r = srpc_ds_async_channel_extendedvalue_changed(devconn->srpc, buf[0], &ev);
          } else if (cid == SUPLA_DS_CALL_DEVICE_CHANNEL_VALUE_CHANGED && n == 9) {
            r = srpc_ds_async_channel_value_changed(devconn->srpc, buf[0], (char *)buf + 1);
          } else if (cid == SUPLA_DS_CALL_CHANNEL_SET_VALUE_RESULT && n == 6) {
            _supla_int_t sender; memcpy(&sender, buf + 1, 4);
            r = srpc_ds_async_set_channel_result(devconn->srpc, buf[0], sender, (char)buf[5]);
          } else
            r = srpc_async_call(devconn->srpc, cid, n ? (char *)buf : NULL, (unsigned)n);
          sdk_out("CALLRET %u", (unsigned)r);
        }
      } else if (!strcmp(ops_tok[0], "esp")) {
        for (int i = 1; i < ops_ntok && sdk_esp_script_len < SDK_ESP_SCRIPT_MAX; i++)
          sdk_esp_script[sdk_esp_script_len++] = atoi(ops_tok[i]);
      } else {
        sdk_out("BADOP");
      }
    }
    ops_done();
  }
  return 0;
}
