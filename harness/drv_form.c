/* drv_form — C14 driver: the real config-mode HTTP handler (supla_esp_cfgmode.c) fed with request
 * segments on one connection; settings record, flash and responses observed. */
#include "sdk/sdk.h"
#include "sdk/fwglue.h"
#include "ops.h"
#include <supla_esp.h>
#include <supla_esp_cfg.h>
#include <supla_esp_cfgmode.h>

void supla_esp_connectcb(void *arg);
void supla_esp_recv_callback(void *arg, char *pdata, unsigned short len);
void supla_esp_discon_callback(void *arg);

static struct espconn conn;
static esp_tcp tcp;
static char *lastseg;

/* deterministic "stack garbage": fills the stack area the handler is about to use */
static void __attribute__((noinline)) stackfill(int byte) {
  volatile char pad[6000];
  for (unsigned i = 0; i < sizeof(pad); i++) pad[i] = (char)byte;
  __asm__ volatile("" ::: "memory");
}
static void show(void) {
  fprintf(stdout, "CFGREC ");
  sdk_out_hex(&supla_esp_cfg, sizeof(supla_esp_cfg));
  fputc('\n', stdout);
}
int main(void) {
  static unsigned char buf[40000];
  sdk_log_echo = 0;
  sdk_restart_armed = 1;
  sdk_flash_log = 1;
  memset(sdk_flash, 0xff, sizeof(sdk_flash));
  supla_esp_cfg_init();
  supla_esp_devconn_init(); /* as user_init does: a restart requested through the form (rbt=1) stops the connection timers */
  conn.proto.tcp = &tcp;
  conn.type = ESPCONN_TCP;
  int fill = -1;
  while (ops_next()) {
    if (sdk_dead) { sdk_out("DEAD"); ops_done(); continue; }
    if (setjmp(sdk_restart_jmp) == 0) {
      const char *op = ops_tok[0];
      if (!strcmp(op, "set") && ops_ntok == 3) {
        long n = ops_hex(ops_tok[2], buf, sizeof(buf));
        unsigned off = (unsigned)strtoul(ops_tok[1], 0, 10);
        if (n < 0 || off + n > sizeof(supla_esp_cfg)) sdk_out("BADOP");
        else memcpy((char *)&supla_esp_cfg + off, buf, n);
      } else if (!strcmp(op, "stack") && ops_ntok == 2) {
        fill = (int)strtol(ops_tok[1], 0, 16);
      } else if (!strcmp(op, "conn")) {
        if (conn.reverse) supla_esp_discon_callback(&conn);
        supla_esp_connectcb(&conn);
      } else if (!strcmp(op, "seg") && ops_ntok == 2) {
        long n = ops_hex(ops_tok[1], buf, sizeof(buf));
        if (n < 0 || !conn.reverse) sdk_out("BADOP");
        else {
          free(lastseg);
          lastseg = (char *)malloc(n ? n : 1); /* exactly the segment: over-reads are caught */
          memcpy(lastseg, buf, n);
          if (fill >= 0) stackfill(fill);
          supla_esp_recv_callback(&conn, lastseg, (unsigned short)n);
        }
      } else if (!strcmp(op, "formlog") && ops_ntok == 2) {
        fw_hook_form_log = atoi(ops_tok[1]);
      } else if (!strcmp(op, "reload")) { /* what a restart loads: the configuration is read from flash again */
        supla_esp_cfg_init();
      } else if (!strcmp(op, "disc")) {
        supla_esp_discon_callback(&conn);
      } else if (!strcmp(op, "show")) {
        show();
      } else if (!strcmp(op, "fault") && ops_ntok == 3) {
        sdk_flash_ops = 0; sdk_flash_fail_at = atoi(ops_tok[1]); sdk_flash_fail_mode = atoi(ops_tok[2]);
      } else sdk_out("BADOP");
    }
    ops_done();
  }
  free(lastseg);
  if (conn.reverse) free(conn.reverse);
  return 0;
}
