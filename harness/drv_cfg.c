/* drv_cfg — C13 driver: real supla_esp_cfg.c over the NOR flash model with fault plans. */
#include "sdk/sdk.h"
#include "sdk/fwglue.h"
#include "ops.h"
#include <supla_esp.h>
#include <supla_esp_cfg.h>

static unsigned fnv(const void *p, size_t n) {
  unsigned h = 2166136261u;
  for (size_t i = 0; i < n; i++) { h ^= ((const unsigned char *)p)[i]; h *= 16777619u; }
  return h;
}
static void show_cfg(const char *what) {
  fprintf(stdout, "%s tag=", what);
  sdk_out_hex(supla_esp_cfg.TAG, 6);
  fprintf(stdout, " guid=");
  sdk_out_hex(supla_esp_cfg.GUID, SUPLA_GUID_SIZE);
  fprintf(stdout, " auth=");
  sdk_out_hex(supla_esp_cfg.AuthKey, SUPLA_AUTHKEY_SIZE);
  fprintf(stdout, " rest=%08x state=%08x\n", fnv((char *)&supla_esp_cfg + 38, sizeof(supla_esp_cfg) - 38),
          fnv(&supla_esp_state, sizeof(supla_esp_state)));
}
int main(void) {
  static unsigned char buf[8192];
  sdk_log_echo = 0;
  sdk_restart_armed = 1;
  sdk_flash_log = 1;
  memset(sdk_flash, 0xff, sizeof(sdk_flash));
  while (ops_next()) {
    sdk_dead = 0;
    if (setjmp(sdk_restart_jmp) == 0) {
      const char *op = ops_tok[0];
      if (!strcmp(op, "flashset") && ops_ntok == 3) { /* sector-relative offset, hex */
        long n = ops_hex(ops_tok[2], buf, sizeof(buf));
        unsigned off = (unsigned)strtoul(ops_tok[1], 0, 10);
        if (n < 0 || off + n > 8192) sdk_out("BADOP");
        else memcpy(&sdk_flash[CFG_SECTOR * 4096 + off], buf, n);
      } else if (!strcmp(op, "flashfill") && ops_ntok == 2) {
        memset(&sdk_flash[CFG_SECTOR * 4096], (int)strtoul(ops_tok[1], 0, 16), 8192);
      } else if (!strcmp(op, "fault") && ops_ntok == 3) { /* k-th flash op from now, mode */
        sdk_flash_ops = 0; sdk_flash_crash_at = 0;
        sdk_flash_fail_at = atoi(ops_tok[1]); sdk_flash_fail_mode = atoi(ops_tok[2]);
      } else if (!strcmp(op, "crash") && ops_ntok == 3) { /* power loss at k-th flash op after `bytes` bytes of it */
        sdk_flash_ops = 0; sdk_flash_fail_at = 0;
        sdk_flash_crash_at = atoi(ops_tok[1]); sdk_flash_partial = atoi(ops_tok[2]);
      } else if (!strcmp(op, "init")) {
        sdk_rng_state = 0x1234567u + sdk_flash_ops * 7919u + (unsigned)sdk_now_us;
        char r = supla_esp_cfg_init();
        sdk_advance_us(5000);
        sdk_out("INITRET %d", r);
        show_cfg("CFG");
      } else if (!strcmp(op, "set") && ops_ntok == 3) { /* modify RAM config: offset hex */
        long n = ops_hex(ops_tok[2], buf, sizeof(buf));
        unsigned off = (unsigned)strtoul(ops_tok[1], 0, 10);
        if (n < 0 || off + n > sizeof(supla_esp_cfg)) sdk_out("BADOP");
        else memcpy((char *)&supla_esp_cfg + off, buf, n);
      } else if (!strcmp(op, "save")) {
        char r = supla_esp_cfg_save(&supla_esp_cfg);
        sdk_out("SAVERET %d", r);
      } else if (!strcmp(op, "setstate") && ops_ntok == 3) {
        long n = ops_hex(ops_tok[2], buf, sizeof(buf));
        unsigned off = (unsigned)strtoul(ops_tok[1], 0, 10);
        if (n < 0 || off + n > sizeof(supla_esp_state)) sdk_out("BADOP");
        else memcpy((char *)&supla_esp_state + off, buf, n);
      } else if (!strcmp(op, "savestate")) {
        supla_esp_save_state(0);
      } else if (!strcmp(op, "factory")) {
        factory_defaults(1);
        show_cfg("CFG");
      } else if (!strcmp(op, "show")) {
        show_cfg("CFG");
      } else if (!strcmp(op, "sector")) {
        fprintf(stdout, "SECTOR ");
        sdk_out_hex(&sdk_flash[CFG_SECTOR * 4096], sizeof(SuplaEspCfg));
        fputc('\n', stdout);
      } else if (!strcmp(op, "showstate")) {
        fprintf(stdout, "STATE ");
        sdk_out_hex(&supla_esp_state, sizeof(SuplaEspState));
        fputc('\n', stdout);
      } else if (!strcmp(op, "showrec")) {
        fprintf(stdout, "REC ");
        sdk_out_hex(&supla_esp_cfg, sizeof(SuplaEspCfg));
        fputc('\n', stdout);
      } else sdk_out("BADOP");
    }
    if (!strcmp(ops_tok[0], "save") || !strcmp(ops_tok[0], "savestate") || !strcmp(ops_tok[0], "init") ||
        !strcmp(ops_tok[0], "factory")) {
      sdk_flash_fail_at = 0; sdk_flash_crash_at = 0;
    }
    ops_done();
  }
  return 0;
}
