/* drv_uptime — C19 driver for uptime.c: boot value, time advance (the 10 s refresh timer runs
 * inside), explicit polls. */
#include "sdk/sdk.h"
#include "ops.h"
#include <uptime.h>
int main(void) {
  while (ops_next()) {
    const char *op = ops_tok[0];
    if (!strcmp(op, "boot") && ops_ntok == 2) sdk_boot_cnt = (uint32_t)strtoul(ops_tok[1], 0, 10);
    else if (!strcmp(op, "init")) supla_esp_uptime_init();
    else if (!strcmp(op, "advus") && ops_ntok == 2) sdk_advance_us(strtoull(ops_tok[1], 0, 10));
    else if (!strcmp(op, "poll")) {
      unsigned long long us = uptime_usec();
      unsigned long long ms = uptime_msec();
      unsigned s = uptime_sec();
      sdk_out("UPTIME %llu %llu %u", us, ms, s);
    } else sdk_out("BADOP");
    ops_done();
  }
  return 0;
}
