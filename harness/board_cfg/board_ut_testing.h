/* /verif board header: base + channel-config retrieval (RETREIVE_CHANNEL_CONFIG) */
#ifndef VERIF_BOARD_CFG_H
#define VERIF_BOARD_CFG_H
void verif_factory_hook(void);
#define BOARD_ESP_FACTORY_DEFAULTS verif_factory_hook();
#define RETREIVE_CHANNEL_CONFIG 0xff
/* observation of every recognised input state change (supla_esp_board_input_state_change in sdk/fwglue.c) */
#define BOARD_INPUT_STATE_CHANGE_NOTIF
#endif
