/* drv_mqtt — C16/C17 driver: real mqtt.c (MQTT-C), supla_esp_mqtt.c, cfg against the SDK model.
 * VERIF-INCLUDES: supla_esp_mqtt.c */
#include "sdk/sdk.h"
#include "sdk/fwglue.h"
#include "ops.h"

#include "supla_esp_mqtt.c"
#include <uptime.h>
#include <supla_esp_wifi.h>

static int hex_field(const char *s, char *dst, size_t cap) {
  static unsigned char b[4096];
  long n = ops_hex(s, b, sizeof(b));
  if (n < 0 || (size_t)n > cap) return -1;
  memset(dst, 0, cap);
  memcpy(dst, b, n);
  return (int)n;
}

static void recvstate(void) {
  sdk_out("RECVSTATE kept=%ld err=%d gap=%d", (long)(supla_esp_mqtt_vars->client.recv_buffer.curr - supla_esp_mqtt_vars->client.recv_buffer.mem_start),
          supla_esp_mqtt_vars->client.error != MQTT_OK ? 1 : 0, (int)supla_esp_mqtt_vars->recv_gap);
}

int main(void) {
  static unsigned char buf[70000];
  sdk_log_echo = 0;
  sdk_restart_armed = 1;
  memset(&supla_esp_cfg, 0, sizeof(supla_esp_cfg));
  for (int i = 0; i < SUPLA_GUID_SIZE; i++) supla_esp_cfg.GUID[i] = 0xA0 + i;
  strcpy(supla_esp_cfg.Server, "10.0.0.1");
  supla_esp_cfg.Port = 1883;
  supla_esp_cfg.Flags = CFG_FLAG_MQTT_ENABLED;
  supla_esp_uptime_init();
  while (ops_next()) {
    if (sdk_dead) { ops_done(); continue; }
    if (setjmp(sdk_restart_jmp) == 0) {
      const char *op = ops_tok[0];
      if (!strcmp(op, "cfg") && ops_ntok == 3) {
        int r = 0;
        if (!strcmp(ops_tok[1], "user")) r = hex_field(ops_tok[2], supla_esp_cfg.Username, SUPLA_EMAIL_MAXSIZE);
        else if (!strcmp(ops_tok[1], "pass")) r = hex_field(ops_tok[2], supla_esp_cfg.Password, SUPLA_LOCATION_PWD_MAXSIZE);
        else if (!strcmp(ops_tok[1], "prefix")) r = hex_field(ops_tok[2], supla_esp_cfg.MqttTopicPrefix, MQTT_PREFIX_SIZE);
        else if (!strcmp(ops_tok[1], "flags")) supla_esp_cfg.Flags = (unsigned)strtoul(ops_tok[2], 0, 10);
        else if (!strcmp(ops_tok[1], "qos")) supla_esp_cfg.MqttQoS = (char)atoi(ops_tok[2]);
        else r = -1;
        if (r < 0) sdk_out("BADOP");
      } else if (!strcmp(op, "start")) {
        /* junk on the stack first: conn_on_connect's password[300] is uninitialised in the NO_AUTH case */
        { volatile char junk[4096]; for (int i = 0; i < 4096; i++) junk[i] = (char)(0x41 + i % 23); (void)junk; }
        supla_esp_mqtt_init();
        supla_esp_mqtt_client_start();
        sdk_advance_us(300000); /* wifi poll -> got ip -> dns literal -> iterate timer -> reconnect -> connect */
        sdk_out("PREFIX %s", supla_esp_mqtt_vars && supla_esp_mqtt_vars->prefix ? supla_esp_mqtt_vars->prefix : "?");
      } else if (!strcmp(op, "connected")) {
        { volatile char junk[4096]; for (int i = 0; i < 4096; i++) junk[i] = (char)(0x41 + i % 23); (void)junk; }
        if (supla_esp_mqtt_vars) supla_esp_mqtt_conn_on_connect(&supla_esp_mqtt_vars->esp_conn);
        sdk_advance_us(120000);
      } else if (!strcmp(op, "seg") && ops_ntok == 2) {
        long n = ops_hex(ops_tok[1], buf, sizeof(buf));
        if (n < 0 || !supla_esp_mqtt_vars) sdk_out("BADOP");
        else {
          char *p = malloc(n ? n : 1);
          memcpy(p, buf, n);
          supla_esp_mqtt_conn_recv_cb(&supla_esp_mqtt_vars->esp_conn, p, (unsigned short)n);
          free(p);
          sdk_out("CLIENTERR %d", (int)supla_esp_mqtt_vars->client.error);
          if (fw_hook_mqtt_log) recvstate();
        }
      } else if (!strcmp(op, "adv") && ops_ntok == 2) {
        sdk_advance_us(strtoull(ops_tok[1], 0, 10) * 1000ull);
        if (fw_hook_mqtt_log && supla_esp_mqtt_vars) recvstate();
      } else if (!strcmp(op, "mqlog") && ops_ntok == 2) { /* print the hooks of __mqtt_recv and the buffer state */
        fw_hook_mqtt_log = atoi(ops_tok[1]);
        if (fw_hook_mqtt_log && supla_esp_mqtt_vars) recvstate();
      } else if (!strcmp(op, "unpack") && ops_ntok == 2) {
        /* mqtt_unpack_response on an exact-size heap buffer */
        long n = ops_hex(ops_tok[1], buf, sizeof(buf));
        if (n < 0) sdk_out("BADOP");
        else {
          uint8_t *p = malloc(n ? n : 1);
          memcpy(p, buf, n);
          struct mqtt_response r;
          memset(&r, 0, sizeof(r));
          ssize_t c = mqtt_unpack_response(&r, p, n);
          if (c > 0 && r.fixed_header.control_type == MQTT_CONTROL_PUBLISH) {
            long to = (const uint8_t *)r.decoded.publish.topic_name - p, po = (const uint8_t *)r.decoded.publish.application_message - p;
            sdk_out("UNPACK %ld PUBLISH qos=%u dup=%u ret=%u pid=%u topic=%ld+%u payload=%ld+%llu", (long)c,
                    r.decoded.publish.qos_level, r.decoded.publish.dup_flag, r.decoded.publish.retain_flag ? 1 : 0,
                    r.decoded.publish.qos_level ? r.decoded.publish.packet_id : 0, to,
                    (unsigned)r.decoded.publish.topic_name_size, po,
                    (unsigned long long)r.decoded.publish.application_message_size);
          } else
            sdk_out("UNPACK %ld type=%u", (long)c, c > 0 ? (unsigned)r.fixed_header.control_type : 0);
          free(p);
        }
      } else if (!strcmp(op, "packhdr") && ops_ntok == 4) { /* control type, flags, remaining length */
        uint8_t *b = malloc(5); /* exactly the longest header: an overrun is caught */
        struct mqtt_fixed_header fh;
        memset(&fh, 0, sizeof(fh));
        fh.control_type = (enum MQTTControlPacketType)atoi(ops_tok[1]);
        fh.control_flags = (uint8_t)atoi(ops_tok[2]);
        fh.remaining_length = (uint32_t)strtoul(ops_tok[3], 0, 10);
        ssize_t r = mqtt_pack_fixed_header(b, (size_t)1 << 40, &fh); /* the announced room is not the subject here */
        if (r <= 0) sdk_out("PACKHDR ERR");
        else { fprintf(stdout, "PACKHDR %ld ", (long)r); sdk_out_hex(b, r); fputc('\n', stdout); }
        free(b);
      } else if (!strcmp(op, "val") && ops_ntok == 4) {
        char *b = malloc(25); /* exact size: ASan catches an overrun */
        memset(b, 0x7f, 25);
        supla_esp_mqtt_prepare_val(b, atoi(ops_tok[1]), (_supla_int64_t)strtoull(ops_tok[2], 0, 10), atoi(ops_tok[3]));
        b[24] = 0;
        sdk_out("VAL %s", b);
        free(b);
      } else if (!strcmp(op, "topic") && ops_ntok == 3) {
        static unsigned char t[4096], m[4096];
        long tn = ops_hex(ops_tok[1], t, sizeof(t)), mn = ops_hex(ops_tok[2], m, sizeof(m));
        if (tn < 0 || mn < 0 || !supla_esp_mqtt_vars) sdk_out("BADOP");
        else {
          char *tp = malloc(tn ? tn : 1), *mp = malloc(mn ? mn : 1);
          memcpy(tp, t, tn); memcpy(mp, m, mn);
          uint8 ch = 0, on = 0;
          uint8 r = supla_esp_mqtt_parser_set_on(tp, tn, mp, mn, &ch, &on);
          sdk_out("SETON %u %u %u", r, r ? ch : 0, r ? on : 0);
          free(tp); free(mp);
        }
      } else if (!strcmp(op, "topicrs") && ops_ntok == 3) {
        static unsigned char t[4096], m[4096];
        long tn = ops_hex(ops_tok[1], t, sizeof(t)), mn = ops_hex(ops_tok[2], m, sizeof(m));
        if (tn < 0 || mn < 0 || !supla_esp_mqtt_vars) sdk_out("BADOP");
        else {
          char *tp = malloc(tn ? tn : 1), *mp = malloc(mn ? mn : 1);
          memcpy(tp, t, tn); memcpy(mp, m, mn);
          uint8 ch = 0, act = 0, pct = 0, tilt = 0;
          uint8 r = supla_esp_mqtt_parser_rs_fb_action(tp, tn, mp, mn, &ch, &act, &pct, &tilt);
          sdk_out("RSACT %u %u %u %u %u", r, r ? ch : 0, r ? act : 0, r ? pct : 0, r ? tilt : 0);
          free(tp); free(mp);
        }
      } else sdk_out("BADOP");
    }
    ops_done();
  }
  return 0;
}
