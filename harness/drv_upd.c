/* drv_upd — C18 driver: the real supla_update.c fed with HTTP response segments; flash, upgrade
 * flag and restart calls are observed through the SDK model. */
#include "sdk/sdk.h"
#include "sdk/fwglue.h"
#include "ops.h"
#include <supla_esp.h>
#include "supla_update.c" /* VERIF-INCLUDES: supla_update.c */

#define IMG_MAX (1100 * 1024)
static unsigned char img[IMG_MAX];
static size_t img_len = 0;
static char *lastseg = NULL;
static uint32_t fnv(const unsigned char *p, size_t n) {
  uint32_t h = 2166136261u;
  for (size_t i = 0; i < n; i++) { h ^= p[i]; h *= 16777619u; }
  return h;
}
static void upgflag_hook(int flag) {
  if (flag == 1 && update) sdk_out("EXP %d", update->expected_file_size); /* UPGRADE_FLAG_START: the length the scanner read */
}
int main(void) {
  static unsigned char buf[40000];
  sdk_upgflag_hook = upgflag_hook;
  static unsigned char seg[70000];
  sdk_log_echo = 0;
  sdk_restart_armed = 1;
  sdk_flash_log = 1;
  memset(sdk_flash, 0xff, sizeof(sdk_flash));
  while (ops_next()) {
    if (!strcmp(ops_tok[0], "slotfnv") && ops_ntok == 3) {
      size_t a = strtoul(ops_tok[1], 0, 10), n = strtoul(ops_tok[2], 0, 10);
      if (a + n <= sizeof(sdk_flash)) sdk_out("SLOTFNV %08x", fnv(&sdk_flash[a], n)); else sdk_out("BADOP");
      ops_done(); continue;
    }
    if (sdk_dead) { sdk_out("DEAD"); ops_done(); continue; }
    if (setjmp(sdk_restart_jmp) == 0) {
      const char *op = ops_tok[0];
      if (!strcmp(op, "map") && ops_ntok == 3) {
        sdk_flash_size_map = atoi(ops_tok[1]); sdk_userbin = atoi(ops_tok[2]);
      } else if (!strcmp(op, "start")) {
        TSD_FirmwareUpdate_UrlResult url;
        memset(&url, 0, sizeof(url));
        url.exists = 1; url.url.available_protocols = SUPLA_URL_PROTO_HTTP;
        strcpy(url.url.host, "10.0.0.9"); url.url.port = 80; strcpy(url.url.path, "fw.bin");
        supla_esp_cfg_init();
        supla_esp_gpio_init();
        supla_esp_devconn_init();
        sdk_flash_ops = 0;
        update_step = FUPDT_STEP_CHECKING;
        update_checking_start_time = system_get_time() + 1;
        supla_esp_update_url_result(&url);
        if (update) sdk_out("SLOT %u", (unsigned)update->flash_addr); else sdk_out("NOSLOT");
      } else if (!strcmp(op, "imgadd") && ops_ntok == 2) {
        long n = ops_hex(ops_tok[1], buf, sizeof(buf));
        if (n < 0 || img_len + n > IMG_MAX) sdk_out("BADOP"); else { memcpy(img + img_len, buf, n); img_len += n; }
      } else if (!strcmp(op, "imgfill") && ops_ntok == 3) { /* n pseudo-random bytes from seed */
        size_t n = strtoul(ops_tok[1], 0, 10); uint32_t x = strtoul(ops_tok[2], 0, 10) | 1;
        if (img_len + n > IMG_MAX) sdk_out("BADOP");
        else for (size_t i = 0; i < n; i++) { x ^= x << 13; x ^= x >> 17; x ^= x << 5; img[img_len++] = (unsigned char)(x >> 8); }
      } else if (!strcmp(op, "sign")) { /* the current buffer is the genuine signed image */
        fw_verify_oracle = 1;
        if (img_len >= 16 + RSA_NUM_BYTES) {
          fw_verify_len = img_len - 16 - RSA_NUM_BYTES;
          fw_verify_hfnv = fnv(img, fw_verify_len);
          fw_verify_sfnv = fnv(img + fw_verify_len, RSA_NUM_BYTES);
        } else { fw_verify_len = ~0ull; }
        sdk_out("SIGNED %llu %08x", (unsigned long long)img_len, fnv(img, img_len));
      } else if (!strcmp(op, "imgtrunc") && ops_ntok == 2) { /* drop n bytes from the end of the image buffer */
        size_t n = strtoul(ops_tok[1], 0, 10);
        img_len = n <= img_len ? img_len - n : 0;
      } else if (!strcmp(op, "slotload") && ops_ntok == 2) { /* the spare slot holds this image from an earlier update */
        size_t a = strtoul(ops_tok[1], 0, 10);
        if (a + img_len <= sizeof(sdk_flash)) memcpy(&sdk_flash[a], img, img_len); else sdk_out("BADOP");
      } else if (!strcmp(op, "flip") && ops_ntok == 3) {
        size_t o = strtoul(ops_tok[1], 0, 10);
        if (o < img_len) img[o] ^= (unsigned char)strtoul(ops_tok[2], 0, 16);
      } else if (!strcmp(op, "seg") && ops_ntok == 4) { /* header bytes (hex or -) + image[off, off+len) */
        long h = ops_hex(ops_tok[1], seg, 4000);
        size_t off = strtoul(ops_tok[2], 0, 10), n = strtoul(ops_tok[3], 0, 10);
        if (h < 0 || off + n > img_len || h + n > 65535 || !update) sdk_out("BADOP");
        else {
          memcpy(seg + h, img + off, n);
          /* the SDK hands a heap buffer of exactly this length */
          free(lastseg);
          char *p = lastseg = (char *)malloc(h + n ? h + n : 1);
          memcpy(p, seg, h + n);
          supla_esp_update_recv_cb(&update->conn, p, (unsigned short)(h + n));
          sdk_out("STATE step=%d dl=%d exp=%d", update_step, update->downloaded_data_size, update->expected_file_size);
        }
      } else if (!strcmp(op, "disc")) {
        if (update) supla_esp_update_disconnect_cb(&update->conn);
      } else if (!strcmp(op, "fault") && ops_ntok == 3) {
        sdk_flash_ops = 0; sdk_flash_fail_at = atoi(ops_tok[1]); sdk_flash_fail_mode = atoi(ops_tok[2]);
      } else if (!strcmp(op, "faultall") && ops_ntok == 2) { /* every flash op from the k-th fails */
        extern int sdk_flash_fail_from;
        sdk_flash_ops = 0; sdk_flash_fail_from = atoi(ops_tok[1]);
      } else if (!strcmp(op, "slotfnv") && ops_ntok == 3) {
        size_t a = strtoul(ops_tok[1], 0, 10), n = strtoul(ops_tok[2], 0, 10);
        if (a + n <= sizeof(sdk_flash)) sdk_out("SLOTFNV %08x", fnv(&sdk_flash[a], n)); else sdk_out("BADOP");
      } else sdk_out("BADOP");
    }
    ops_done();
  }
  free(lastseg);
  return 0;
}
