/* Firmware-side glue the real translation units expect from user_main.c and
 * from a board file: restart, board hooks, nettle recording stub. */
#include "sdk.h"
#include "fwglue.h"

#include <stdlib.h>
#include <string.h>

#include <supla_esp.h>
#include <supla_esp_cfg.h>
#include <supla_esp_cfgmode.h>
#include <supla_esp_devconn.h>
#include <supla_esp_gpio.h>
#include <supla_esp_rs_fb.h>

#include "nettle/esp8266.h"
#include "nettle/bignum.h"
#include "nettle/rsa.h"
#include "nettle/sha2.h"

/* ---- restart: mirrors user_main.c supla_system_restart (no board hooks) */
static ETSTimer restart_delay_timer;
/* (weak: drv_boot links the real user_main.c, whose own definitions take over) */
__attribute__((weak)) void supla_system_restart(void) {
  if (supla_esp_cfgmode_started() == 0) {
    supla_esp_save_state(0);
    os_delay_us(500);
  }
  supla_esp_devconn_before_system_restart();
  sdk_out("RESTART");
  sdk_dead = 1;
  if (sdk_restart_armed) longjmp(sdk_restart_jmp, 1);
  exit(0);
}
static void restart_cb(void *p) { supla_system_restart(); }
__attribute__((weak)) void supla_system_restart_with_delay(uint32 delay_ms) {
  os_timer_disarm(&restart_delay_timer);
  os_timer_setfn(&restart_delay_timer, (os_timer_func_t *)restart_cb, NULL);
  os_timer_arm(&restart_delay_timer, delay_ms, 0);
}

/* ---- board ---- */
struct fw_board fw_board;
int fw_factory_hook_calls = 0;
void verif_factory_hook(void) {
  fw_factory_hook_calls++;
  sdk_out("FACTORYHOOK");
}

#ifndef RSA_NUM_BYTES
#define RSA_NUM_BYTES 512
#endif
const uint8_t rsa_public_key_bytes[RSA_NUM_BYTES] = {1, 2, 3, 4};

void supla_esp_board_send_channel_values_with_delay(void *srpc) {}
void supla_esp_board_set_device_name(char *buffer, uint8 buffer_size) {
  ets_snprintf(buffer, buffer_size, "VERIF-BOARD");
}
void supla_esp_board_set_channels(TDS_SuplaDeviceChannel_C *channels,
                                  unsigned char *channel_count) {
  int n = 0;
  for (int i = 0; i < fw_board.nchannels && i < 8; i++) {
    channels[n].Number = fw_board.channels[i].number;
    channels[n].Type = fw_board.channels[i].type;
    channels[n].FuncList = fw_board.channels[i].funclist;
    channels[n].Default = fw_board.channels[i].deflt;
    channels[n].Flags = fw_board.channels[i].flags;
    n++;
  }
  *channel_count = n;
}

void supla_esp_board_gpio_init(void) {
  for (int i = 0; i < fw_board.nrelays && i < RELAY_MAX_COUNT; i++) {
    supla_relay_cfg[i].gpio_id = fw_board.relays[i].gpio;
    supla_relay_cfg[i].flags = fw_board.relays[i].flags;
    supla_relay_cfg[i].channel = fw_board.relays[i].channel;
    supla_relay_cfg[i].channel_flags = fw_board.relays[i].channel_flags;
  }
  for (int i = 0; i < fw_board.ninputs && i < INPUT_MAX_COUNT; i++) {
    supla_input_cfg[i].gpio_id = fw_board.inputs[i].gpio;
    supla_input_cfg[i].flags = fw_board.inputs[i].flags;
    supla_input_cfg[i].type = fw_board.inputs[i].type;
    supla_input_cfg[i].relay_gpio_id = fw_board.inputs[i].relay_gpio;
    supla_input_cfg[i].channel = fw_board.inputs[i].channel;
    supla_input_cfg[i].action_trigger_cap = fw_board.inputs[i].at_cap;
  }
#ifdef _ROLLERSHUTTER_SUPPORT
  for (int i = 0; i < fw_board.nrs && i < RS_MAX_COUNT; i++) {
    supla_rs_cfg[i].up = &supla_relay_cfg[fw_board.rs[i].up_relay];
    supla_rs_cfg[i].down = &supla_relay_cfg[fw_board.rs[i].down_relay];
    supla_rs_cfg[i].delayed_trigger.value = 0;
  }
#endif
}

/* model 3: a physical shutter per rs index: position in ms of travel from fully open (0) to fully closed
 * (motor_down_ms), integrated from the relay levels seen at every query (the firmware asks every 10 ms);
 * the motor draws power while a relay is on, the start-up delay has passed and the end stop in that
 * direction is not reached */
double fw_phys_pos[8];
static uint64_t phys_last[8];
bool supla_esp_board_is_rs_in_move(supla_roller_shutter_cfg_t *rs_cfg) {
  /* motor/sensor model chosen by the ops file */
  unsigned int t = system_get_time();
  switch (fw_board.motor_model) {
    case 1:
      return true; /* stuck "moving" */
    case 2:
      return false; /* never moving */
    case 5: /* as 3, but after two arrivals at an end stop the sensor sticks to "moving" (a sensor that fails mid-calibration) */
    case 3: {
      int i = (int)(rs_cfg - supla_rs_cfg);
      if (i < 0 || i >= 8) return false;
      double dt = (double)(sdk_now_us - phys_last[i]) / 1000.0;
      phys_last[i] = sdk_now_us;
      int up = 1 == __supla_esp_gpio_relay_is_hi(rs_cfg->up), down = 1 == __supla_esp_gpio_relay_is_hi(rs_cfg->down);
      unsigned el = t - rs_cfg->start_time;
      int started = el >= (unsigned)fw_board.motor_startup_ms * 1000u;
      double total = fw_board.motor_down_ms > 0 ? fw_board.motor_down_ms : 1;
      /* travel is measured on the closing time scale; opening may be slower/faster */
      double up_rate = fw_board.motor_up_ms > 0 ? total / fw_board.motor_up_ms : 1.0;
      bool moving = false;
      if (up && !down && started) {
        if (fw_phys_pos[i] > 0) { moving = true; fw_phys_pos[i] -= dt * up_rate; if (fw_phys_pos[i] < 0) fw_phys_pos[i] = 0; }
      } else if (down && !up && started) {
        if (fw_phys_pos[i] < total) { moving = true; fw_phys_pos[i] += dt; if (fw_phys_pos[i] > total) fw_phys_pos[i] = total; }
      }
      if (fw_board.motor_model == 5) {
        static int stops[8], was_moving[8], stuck[8];
        if (!up && !down) {
          was_moving[i] = 0;
          if (stops[i] >= 2) stuck[i] = 1; /* from the next run on */
        } else {
          if (was_moving[i] && !moving && started) stops[i]++;
          was_moving[i] = moving;
          if (stuck[i] && started) return true;
        }
      }
      return moving;
    }
    default:
      break;
  }
  unsigned int el = t - rs_cfg->start_time;
  if (el < (unsigned)fw_board.motor_startup_ms * 1000u) return false;
  if (1 == __supla_esp_gpio_relay_is_hi(rs_cfg->up) &&
      el >= (unsigned)(fw_board.motor_up_ms + fw_board.motor_startup_ms) * 1000u)
    return false;
  if (1 == __supla_esp_gpio_relay_is_hi(rs_cfg->down) &&
      el >=
          (unsigned)(fw_board.motor_down_ms + fw_board.motor_startup_ms) * 1000u)
    return false;
  return el > 0;
}

bool supla_esp_board_calcfg_request(TSD_DeviceCalCfgRequest *request) {
  return false;
}

/* ---- nettle recording stub ---- */
int sdk_verify_result = 0;
/* signature oracle: when armed, "the RSA signature verifies" iff exactly the signed body and the
 * signature bytes issued for it were presented (idealised RSA-SHA256) */
int fw_verify_oracle = 0;
unsigned long long fw_verify_len = 0;
uint32_t fw_verify_hfnv = 0, fw_verify_sfnv = 0;
static unsigned long long hash_len = 0;
static uint32_t hash_fnv = 2166136261u;
static uint32_t sig_fnv = 0;
void nettle_sha256_init(struct sha256_ctx *ctx) {
  hash_len = 0;
  hash_fnv = 2166136261u;
}
void nettle_sha256_update(struct sha256_ctx *ctx, size_t length,
                          const uint8_t *data) {
  for (size_t i = 0; i < length; i++) {
    hash_fnv ^= data[i];
    hash_fnv *= 16777619u;
  }
  hash_len += length;
}
void nettle_rsa_public_key_init(struct rsa_public_key *key) {}
int nettle_rsa_public_key_prepare(struct rsa_public_key *key) { return 1; }
void nettle_mpz_set_str_256_u(mpz_t x, size_t length, const uint8_t *s) {}
void nettle_mpz_init_set_str_256_u(mpz_t x, size_t length, const uint8_t *s) {
  sig_fnv = 2166136261u;
  for (size_t i = 0; i < length; i++) {
    sig_fnv ^= s[i];
    sig_fnv *= 16777619u;
  }
}
void mpz_set_ui(mpz_t x, unsigned long int y) {}
void mpz_init(mpz_t x) {}
int nettle_rsa_sha256_verify(const struct rsa_public_key *key,
                             struct sha256_ctx *hash, const mpz_t signature) {
  int r = sdk_verify_result;
  if (fw_verify_oracle) r = hash_len == fw_verify_len && hash_fnv == fw_verify_hfnv && sig_fnv == fw_verify_sfnv;
  sdk_out("VERIFY hashed=%llu hfnv=%08x sfnv=%08x -> %d", hash_len, hash_fnv, sig_fnv, r);
  return r;
}
void mpz_clear(mpz_t x) {}
void nettle_rsa_public_key_clear(struct rsa_public_key *key) {}

/* ---- observation hooks (SUPLA_VERIF_HOOKS) ---- */
int fw_hook_rs_log = 0;
void supla_verif_hook_rs_set_relay(supla_roller_shutter_cfg_t *rs_cfg, uint8 value,
                                   uint8 cancel_task, uint8 stop_delay) {
  if (fw_hook_rs_log && rs_cfg->up && rs_cfg->down) {
    int zero_margin = supla_esp_cfg.AdditionalTimeMargin[rs_cfg->up->channel] == 0;
    int pos = supla_esp_gpio_rs_get_current_position(rs_cfg);
    int tilts = supla_esp_gpio_rs_is_tilt_supported(rs_cfg);
    int tilt = supla_esp_gpio_rs_get_current_tilt(rs_cfg);
    /* "already at the end stop with a zero margin": for blinds only when the tilt is at its end too */
    sdk_out("SETRELAY %d %u %u %d %d %u %u %llu", (int)(rs_cfg - supla_rs_cfg), value, stop_delay,
            zero_margin && pos == 0 && (!tilts || tilt == 0), zero_margin && pos == 100 && (!tilts || tilt == 100),
            (unsigned)rs_cfg->up->gpio_id, (unsigned)rs_cfg->down->gpio_id,
            (unsigned long long)sdk_now_us);
  }
}
void supla_verif_hook_rs_trigger_fired(supla_roller_shutter_cfg_t *rs_cfg) {
  if (fw_hook_rs_log) sdk_out("TRIGFIRE %d %llu", (int)(rs_cfg - supla_rs_cfg), (unsigned long long)sdk_now_us);
}

int fw_hook_relay_log = 0;
void supla_verif_hook_relay_hi(int port, unsigned char hi) {
  if (fw_hook_relay_log) sdk_out("RELAYHI %d %u %llu", port, hi, (unsigned long long)sdk_now_us);
}

/* ---- board notification of supla_esp_input_notify_state_change (BOARD_INPUT_STATE_CHANGE_NOTIF) ---- */
#include <supla_esp_input.h>
int fw_hook_input_log = 0;
void supla_esp_board_input_state_change(void *_input_cfg) {
  supla_input_cfg_t *c = (supla_input_cfg_t *)_input_cfg;
  if (fw_hook_input_log) sdk_out("INCHG %d %d %llu", (int)(c - supla_input_cfg), c->last_state, (unsigned long long)sdk_now_us);
}

/* ---- hooks in mqtt.c (__mqtt_recv): every receive pass and every packet taken out of the buffer ---- */
int fw_hook_mqtt_log = 0;
void supla_verif_hook_mqtt_recv_begin(void) {
  if (fw_hook_mqtt_log) sdk_out("MQSYNC");
}
void supla_verif_hook_mqtt_handled(int control_type, long consumed, long result) {
  if (fw_hook_mqtt_log) sdk_out("MQH %d %ld %d", control_type, consumed, result == 1 ? 1 : 0);
}

/* configuration form scanner (hook ce6c071): a recognised field is handed to its assignment */
int fw_hook_form_log = 0;
void supla_verif_hook_form_var(int var, const char *buff, int buff_size, int matched) {
  if (!fw_hook_form_log) return;
  fprintf(stdout, "FVAR %d ", var);
  int n = 0;
  while (n < buff_size && buff[n]) n++;
  if (n) sdk_out_hex(buff, n); else fputc('-', stdout);
  fprintf(stdout, " %d %d\n", n < buff_size ? 1 : 0, matched); /* matched: fields counted before this one */
}

#ifdef MQTT_SUPPORT_ENABLED
/* ---- MQTT board hooks: print what the command handler is given ---- */
#include <supla_esp_mqtt.h>
uint8 supla_esp_board_mqtt_get_subscription_topic(char **topic_name, uint8 index) {
  if (index == 1) return supla_esp_mqtt_prepare_topic(topic_name, "channels/+/set/+");
  return 0;
}
uint8 supla_esp_board_mqtt_get_message_for_publication(char **topic_name, void **message,
                                                       size_t *message_size, uint8 index, bool *retain) {
  return 0;
}
void supla_esp_board_mqtt_on_message_received(uint8_t dup_flag, uint8_t qos_level, uint8_t retain_flag,
                                              const void *topic_name, uint16_t topic_name_size,
                                              const char *message, size_t message_size) {
  fprintf(stdout, "PUB %u %u %u ", dup_flag, qos_level, retain_flag ? 1 : 0);
  if (topic_name_size) sdk_out_hex(topic_name, topic_name_size); else fputc('-', stdout);
  fputc(' ', stdout);
  if (message_size > 70000) { fprintf(stdout, "HUGE:%llu", (unsigned long long)message_size); }
  else if (message_size) sdk_out_hex(message, message_size); else fputc('-', stdout);
  fputc('\n', stdout);
  uint8 ch = 0, on = 0;
  if (supla_esp_mqtt_parser_set_on(topic_name, topic_name_size, message, message_size, &ch, &on))
    sdk_out("SETON %u %u", ch, on);
}
void supla_esp_board_mqtt_on_relay_state_changed(uint8 channel) {}
void supla_esp_board_cfg_html_additional_settings(char *buffer, int buffer_size, int *offset) {}
#endif
