/* Deterministic NONOS-SDK model.  Everything the firmware translation units
 * leave undefined when built natively is implemented here.  Modelled, not
 * verified (trusted base): run-to-completion callbacks, timers that expire at
 * arm time + period and re-arm relative to their expiry, a free-running
 * 32-bit microsecond counter with arbitrary boot value, GPIO latch, espconn
 * result codes chosen by the ops file, NOR flash with a fault plan. */
#include "sdk.h"

#include <stdarg.h>
#include <stdlib.h>
#include <string.h>
#include <gpio.h>
#include <eagle_soc.h>
#include <upgrade.h>

/* ------------------------------------------------------------------ out */
void sdk_out(const char *fmt, ...) {
  va_list ap;
  va_start(ap, fmt);
  vfprintf(stdout, fmt, ap);
  va_end(ap);
  fputc('\n', stdout);
}
void sdk_out_hex(const void *p, size_t n) {
  const unsigned char *b = (const unsigned char *)p;
  for (size_t i = 0; i < n; i++) fprintf(stdout, "%02x", b[i]);
}

/* ------------------------------------------------------------------ time */
uint64_t sdk_now_us = 0;
uint32_t sdk_boot_cnt = 0;
jmp_buf sdk_restart_jmp;
int sdk_restart_armed = 0;
int sdk_dead = 0;

int sdk_read_cost_us = 0; /* execution time: every reading of the counter lets that many microseconds pass */
uint32 system_get_time(void) {
  sdk_now_us += sdk_read_cost_us;
  return (uint32)(sdk_boot_cnt + sdk_now_us);
}
uint32 system_get_rtc_time(void) { return (uint32)(sdk_now_us / 6); }
void ets_delay_us(uint32_t us) { sdk_now_us += us; }

#define MAXT 256
static struct {
  os_timer_t *t;
  uint64_t due;
  uint64_t period; /* us; 0 = one-shot */
  uint64_t seq;
  int armed;
} tt[MAXT];
static int ntt = 0;
static uint64_t tseq = 0;

static int tfind(os_timer_t *t, int create) {
  for (int i = 0; i < ntt; i++)
    if (tt[i].t == t) return i;
  if (!create) return -1;
  if (ntt >= MAXT) {
    fprintf(stderr, "sdk: too many timers\n");
    abort();
  }
  tt[ntt].t = t;
  tt[ntt].armed = 0;
  return ntt++;
}

void ets_timer_setfn(os_timer_t *pt, os_timer_func_t *fn, void *arg) {
  pt->timer_func = fn;
  pt->timer_arg = arg;
  tfind(pt, 1);
}
void ets_timer_disarm(os_timer_t *pt) {
  int i = tfind(pt, 0);
  if (i >= 0) tt[i].armed = 0;
}
void ets_timer_arm_new(os_timer_t *pt, uint32_t time, bool repeat, bool ms) {
  int i = tfind(pt, 1);
  uint64_t p = ms ? (uint64_t)time * 1000u : time;
  if (p == 0) p = 1;
  tt[i].armed = 1;
  tt[i].due = sdk_now_us + p;
  tt[i].period = repeat ? p : 0;
  tt[i].seq = ++tseq;
}
int sdk_timer_armed(os_timer_t *t) {
  int i = tfind(t, 0);
  return i >= 0 && tt[i].armed;
}
int sdk_timers_pending(void) {
  int n = 0;
  for (int i = 0; i < ntt; i++) n += tt[i].armed;
  return n;
}
void sdk_timers_reset(void) { ntt = 0; }

void sdk_advance_us(uint64_t us) {
  uint64_t target = sdk_now_us + us;
  for (;;) {
    int best = -1;
    for (int i = 0; i < ntt; i++) {
      if (!tt[i].armed || tt[i].due > target) continue;
      if (best < 0 || tt[i].due < tt[best].due ||
          (tt[i].due == tt[best].due && tt[i].seq < tt[best].seq))
        best = i;
    }
    if (best < 0) break;
    if (tt[best].due > sdk_now_us) sdk_now_us = tt[best].due;
    if (tt[best].period) {
      tt[best].due += tt[best].period;
      tt[best].seq = ++tseq;
    } else {
      tt[best].armed = 0;
    }
    os_timer_t *t = tt[best].t;
    if (t->timer_func) t->timer_func(t->timer_arg);
    if (sdk_dead) return;
  }
  if (target > sdk_now_us) sdk_now_us = target;
}

/* ------------------------------------------------------------------ gpio */
uint32_t sdk_gpio_out = 0, sdk_gpio_in = 0, sdk_gpio_dir = 0;
static uint32_t gpio_status = 0;
static uint8_t pin_intr[32];
static ets_isr_t gpio_isr = NULL;
static void *gpio_isr_arg = NULL;
static int gpio_isr_masked = 1;
int sdk_quiet_gpio = 0;

void GPIO_OUTPUT_SET(uint32 port, uint8 value) {
  port &= 31;
  uint32_t old = sdk_gpio_out;
  if (value)
    sdk_gpio_out |= (1u << port);
  else
    sdk_gpio_out &= ~(1u << port);
  sdk_gpio_dir |= (1u << port);
  if (!sdk_quiet_gpio && old != sdk_gpio_out)
    sdk_out("GPIO %u %u %llu", (unsigned)port, value ? 1 : 0,
            (unsigned long long)sdk_now_us);
}
uint32 GPIO_REG_READ(uint32 reg) {
  switch (reg) {
    case GPIO_OUT_ADDRESS:
      return sdk_gpio_out;
    case GPIO_STATUS_ADDRESS:
      return gpio_status;
    case GPIO_IN_ADDRESS:
      return (sdk_gpio_in & ~sdk_gpio_dir) | (sdk_gpio_out & sdk_gpio_dir);
    default:
      return 0;
  }
}
void GPIO_REG_WRITE(uint32 reg, uint32 value) {
  if (reg == GPIO_STATUS_W1TC_ADDRESS) gpio_status &= ~value;
}
uint32 gpio_input_get(void) {
  return (sdk_gpio_in & ~sdk_gpio_dir) | (sdk_gpio_out & sdk_gpio_dir);
}
void gpio_output_set(uint32 set_mask, uint32 clear_mask, uint32 enable_mask,
                     uint32 disable_mask) {
  uint32_t old = sdk_gpio_out;
  sdk_gpio_out = (sdk_gpio_out | set_mask) & ~clear_mask;
  sdk_gpio_dir = (sdk_gpio_dir | enable_mask) & ~disable_mask;
  if (!sdk_quiet_gpio && old != sdk_gpio_out)
    for (int p = 0; p < 32; p++)
      if ((old ^ sdk_gpio_out) & (1u << p))
        sdk_out("GPIO %d %u %llu", p, (sdk_gpio_out >> p) & 1,
                (unsigned long long)sdk_now_us);
}
void gpio_register_set(uint32 reg_id, uint32 value) {}
void gpio_pin_intr_state_set(uint32 i, GPIO_INT_TYPE s) {
  if (i < 32) pin_intr[i] = (uint8_t)s;
}
void ets_isr_attach(int i, ets_isr_t func, void *arg) {
  if (i == ETS_GPIO_INUM) {
    gpio_isr = func;
    gpio_isr_arg = arg;
  }
}
void ets_isr_mask(uint32 mask) {
  if (mask & (1 << ETS_GPIO_INUM)) gpio_isr_masked = 1;
}
void ets_isr_unmask(uint32 unmask) {
  if (unmask & (1 << ETS_GPIO_INUM)) gpio_isr_masked = 0;
}
void ets_intr_lock(void) {}
void ets_intr_unlock(void) {}

void sdk_input_set(int pin, int level) {
  uint32_t old = sdk_gpio_in;
  if (level)
    sdk_gpio_in |= (1u << pin);
  else
    sdk_gpio_in &= ~(1u << pin);
  if (old == sdk_gpio_in) return;
  if (pin < 32 && pin_intr[pin] != GPIO_PIN_INTR_DISABLE) {
    gpio_status |= (1u << pin);
    if (gpio_isr && !gpio_isr_masked) gpio_isr(gpio_isr_arg);
  }
}

/* --------------------------------------------------------------- espconn */
int sdk_esp_script[SDK_ESP_SCRIPT_MAX];
int sdk_esp_script_len = 0, sdk_esp_script_pos = 0;
int sdk_esp_default = 0;
struct espconn *sdk_last_conn = NULL;
struct espconn *sdk_listen_conn = NULL;
int sdk_disconnect_calls_cb = 0;
int sdk_log_sent_bytes = 1;
dns_found_callback sdk_dns_cb = NULL;
void *sdk_dns_arg = NULL;
char sdk_dns_name[260];

void (*sdk_sent_hook)(const uint8_t *p, int len, int result) = NULL;
int sdk_conn_open = 0;
int sdk_disc_pending = 0; /* the firmware closed a requested connection: its disconnect callback may still come */
int sdk_sent_requires_open = 0; /* 1: without an established connection espconn_sent fails with ESPCONN_CONN */
static sint8 do_sent(struct espconn *c, uint8 *p, uint16 len) {
  int r = sdk_esp_default;
  if (sdk_esp_script_pos < sdk_esp_script_len)
    r = sdk_esp_script[sdk_esp_script_pos++];
  if (sdk_sent_requires_open && sdk_conn_open != 2) r = ESPCONN_CONN;
  fprintf(stdout, "SENT %d ", r);
  if (sdk_log_sent_bytes) {
    if (p)
      sdk_out_hex(p, len);
    else
      fprintf(stdout, "NULL:%u", (unsigned)len);
  } else
    fprintf(stdout, "%u", (unsigned)len);
  fputc('\n', stdout);
  if (sdk_sent_hook) sdk_sent_hook(p, len, r);
  return (sint8)r;
}
sint8 espconn_sent(struct espconn *c, uint8 *p, uint16 len) {
  return do_sent(c, p, len);
}
sint8 espconn_secure_sent(struct espconn *c, uint8 *p, uint16 len) {
  return do_sent(c, p, len);
}
int sdk_connect_script[16];      /* results of the next espconn_connect calls (0 = request accepted) */
int sdk_connect_script_len = 0, sdk_connect_script_pos = 0;
static sint8 do_connect(struct espconn *c) {
  if (sdk_connect_script_pos < sdk_connect_script_len && sdk_connect_script[sdk_connect_script_pos++] != 0) {
    /* the SDK refuses the request at once (ESPCONN_RTE, _MEM, _ISCONN ...): nothing is pending, no callback will come */
    sdk_out("CONNECTREFUSED %d", sdk_connect_script[sdk_connect_script_pos - 1]);
    return (sint8)sdk_connect_script[sdk_connect_script_pos - 1];
  }
  sdk_last_conn = c;
  sdk_conn_open = 1;
  if (sdk_disc_pending != 2) sdk_disc_pending = 0;   /* (the close of an established connection is still to be reported: the new
                                                        connection is not established before that) */
  if (c && c->proto.tcp)
    sdk_out("CONNECT %u.%u.%u.%u:%d", c->proto.tcp->remote_ip[0],
            c->proto.tcp->remote_ip[1], c->proto.tcp->remote_ip[2],
            c->proto.tcp->remote_ip[3], c->proto.tcp->remote_port);
  else
    sdk_out("CONNECT ?");
  return 0;
}
sint8 espconn_connect(struct espconn *c) { return do_connect(c); }
sint8 espconn_secure_connect(struct espconn *c) { return do_connect(c); }
static sint8 do_disconnect(struct espconn *c) {
  sdk_out("DISCONNECT");
  /* an established connection is closed; a connect that is still in progress is not cancelled (the SDK
     reports ESPCONN_ARG and the attempt completes) unless a driver opts in */
  if (sdk_conn_open == 2) sdk_disc_pending = 2;             /* an established connection is closing */
  else if (sdk_conn_open && !sdk_disc_pending) sdk_disc_pending = 1;
  if (sdk_conn_open != 1 || !sdk_sent_requires_open) sdk_conn_open = 0;
  if (sdk_disconnect_calls_cb && c && c->proto.tcp &&
      c->proto.tcp->disconnect_callback)
    c->proto.tcp->disconnect_callback(c);
  return 0;
}
sint8 espconn_disconnect(struct espconn *c) { return do_disconnect(c); }
sint8 espconn_secure_disconnect(struct espconn *c) { return do_disconnect(c); }
sint8 espconn_accept(struct espconn *c) {
  sdk_listen_conn = c;
  return 0;
}
sint8 espconn_regist_time(struct espconn *c, uint32 interval, uint8 type) {
  return 0;
}
sint8 espconn_regist_connectcb(struct espconn *c, espconn_connect_callback cb) {
  if (c && c->proto.tcp) c->proto.tcp->connect_callback = cb;
  return 0;
}
sint8 espconn_regist_disconcb(struct espconn *c, espconn_connect_callback cb) {
  if (c && c->proto.tcp) c->proto.tcp->disconnect_callback = cb;
  return 0;
}
sint8 espconn_regist_reconcb(struct espconn *c, espconn_reconnect_callback cb) {
  if (c && c->proto.tcp) c->proto.tcp->reconnect_callback = cb;
  return 0;
}
sint8 espconn_regist_recvcb(struct espconn *c, espconn_recv_callback cb) {
  if (c) c->recv_callback = cb;
  return 0;
}
sint8 espconn_regist_sentcb(struct espconn *c, espconn_sent_callback cb) {
  if (c) c->sent_callback = cb;
  return 0;
}
sint8 espconn_set_opt(struct espconn *c, uint8 opt) { return 0; }
uint32 espconn_port(void) { return 50000; }
err_t espconn_gethostbyname(struct espconn *c, const char *hostname,
                            ip_addr_t *addr, dns_found_callback found) {
  sdk_dns_cb = found;
  sdk_dns_arg = c;
  strncpy(sdk_dns_name, hostname ? hostname : "", sizeof(sdk_dns_name) - 1);
  sdk_out("GETHOST %s", sdk_dns_name);
  return ESPCONN_INPROGRESS;
}
uint32 ipaddr_addr(const char *cp) {
  unsigned a, b, c, d;
  if (cp && sscanf(cp, "%u.%u.%u.%u", &a, &b, &c, &d) == 4)
    return a | (b << 8) | (c << 16) | (d << 24);
  return 0xffffffffu;
}

/* ----------------------------------------------------------------- flash */
uint8_t sdk_flash[SDK_FLASH_SECTORS * 4096];
int sdk_flash_fail_at = 0, sdk_flash_fail_mode = 0, sdk_flash_crash_at = 0;
int sdk_flash_ops = 0;
int sdk_flash_fail_from = 0; /* every erase/write from the k-th on fails (mode 0) */
int sdk_flash_log = 0;
int sdk_flash_partial = 0; /* bytes of the crashing write that still reach the flash */

static void crash_now(void) {
  sdk_out("POWERLOSS");
  sdk_dead = 1;
  if (sdk_restart_armed) longjmp(sdk_restart_jmp, 2);
  exit(0);
}

uint32 spi_flash_get_id(void) { return 0x1640ef; }
SpiFlashOpResult spi_flash_erase_sector(uint16 sec) {
  sdk_flash_ops++;
  if (sdk_flash_crash_at && sdk_flash_ops == sdk_flash_crash_at) crash_now();
  int fail = (sdk_flash_fail_at && sdk_flash_ops == sdk_flash_fail_at) || (sdk_flash_fail_from && sdk_flash_ops >= sdk_flash_fail_from);
  int effect = !fail || sdk_flash_fail_mode == 1 || sdk_flash_fail_mode == 4;
  if (sec >= SDK_FLASH_SECTORS) {
    sdk_out("FLASH erase %u OOR", sec);
    return SPI_FLASH_RESULT_ERR;
  }
  if (effect) memset(&sdk_flash[(size_t)sec * 4096], 0xff, 4096);
  /* fail modes: 0 error, no effect; 1 error after taking effect; 2 silent (OK, no effect); 3 timeout, no effect; 4 timeout after effect */
  SpiFlashOpResult r = !fail || sdk_flash_fail_mode == 2 ? SPI_FLASH_RESULT_OK
                       : sdk_flash_fail_mode >= 3 ? SPI_FLASH_RESULT_TIMEOUT : SPI_FLASH_RESULT_ERR;
  if (sdk_flash_log) sdk_out("FLASH erase %u %d", sec, (int)r);
  return r;
}
SpiFlashOpResult spi_flash_write(uint32 des, uint32 *src, uint32 size) {
  sdk_flash_ops++;
  if (sdk_flash_crash_at && sdk_flash_ops == sdk_flash_crash_at) {
    const uint8_t *s = (const uint8_t *)src;
    for (uint32 i = 0; i < size && (int)i < sdk_flash_partial && (uint64_t)des + i < sizeof(sdk_flash); i++)
      sdk_flash[des + i] &= s[i];
    crash_now();
  }
  int fail = (sdk_flash_fail_at && sdk_flash_ops == sdk_flash_fail_at) || (sdk_flash_fail_from && sdk_flash_ops >= sdk_flash_fail_from);
  int effect = !fail || sdk_flash_fail_mode == 1 || sdk_flash_fail_mode == 4;
  if ((uint64_t)des + size > sizeof(sdk_flash)) {
    sdk_out("FLASH write %u %u OOR", des, size);
    return SPI_FLASH_RESULT_ERR;
  }
  if (effect) {
    const uint8_t *s = (const uint8_t *)src;
    for (uint32 i = 0; i < size; i++) sdk_flash[des + i] &= s[i];
  }
  SpiFlashOpResult r = !fail || sdk_flash_fail_mode == 2 ? SPI_FLASH_RESULT_OK
                       : sdk_flash_fail_mode >= 3 ? SPI_FLASH_RESULT_TIMEOUT : SPI_FLASH_RESULT_ERR;
  if (sdk_flash_log) sdk_out("FLASH write %u %u %d", des, size, (int)r);
  return r;
}
SpiFlashOpResult spi_flash_read(uint32 src, uint32 *des, uint32 size) {
  if ((uint64_t)src + size > sizeof(sdk_flash)) return SPI_FLASH_RESULT_ERR;
  memcpy(des, &sdk_flash[src], size);
  return SPI_FLASH_RESULT_OK;
}

/* ------------------------------------------------------------------ misc */
uint32_t sdk_rng_state = 0x12345678u;
uint32_t sdk_rand(void) {
  uint32_t x = sdk_rng_state;
  x ^= x << 13;
  x ^= x >> 17;
  x ^= x << 5;
  return sdk_rng_state = x ? x : 0x9e3779b9u;
}
int os_get_random(unsigned char *buf, size_t len) {
  for (size_t i = 0; i < len; i++) buf[i] = (unsigned char)(sdk_rand() >> 8);
  return 0;
}

char sdk_last_log[512];
int sdk_log_echo = 1;
static const struct {
  const char *needle;
  const char *cls;
} logcls[] = {
    {"Recv buffer size exceeded", "RECVOVF"},
    {"Send buffer size exceeded", "SENDOVF"},
    {"sproto_pop_in_sdp error", "POPERR"},
    {"sproto_in_buffer_append", "INAPPERR"},
    {"sproto_out_buffer_append error", "OUTAPPERR"},
    {"ssrpc_in_queue_push error", "INQERR"},
    {"iterate fail", "ITERFAIL"},
    {"DATA ERROR!", "DATAERR"},
    {"WATCHDOG TIMEOUT", "WDT"},
    {"Activity timeout", "ACTTIMEOUT"},
    {"Protocol version error", "VERERR"},
};
int os_printf_plus(const char *format, ...) {
  va_list ap;
  va_start(ap, format);
  vsnprintf(sdk_last_log, sizeof(sdk_last_log), format, ap);
  va_end(ap);
  if (sdk_log_echo == 2 || getenv("VERIF_LOG")) {
    fprintf(stderr, "log: %s", sdk_last_log);
  }
  if (sdk_log_echo)
    for (size_t i = 0; i < sizeof(logcls) / sizeof(logcls[0]); i++)
      if (strstr(sdk_last_log, logcls[i].needle)) {
        sdk_out("LOG %s", logcls[i].cls);
        break;
      }
  return 0;
}
/* supla_log: supla-common/log.c is replaced (not an anchor of any property): its glibc retry loop
 * never terminates on the malformed format "Timeout full_time * %d%" in supla_esp_rs_fb.c. */
void supla_vlog(int pri, const char *message) { os_printf_plus("%s\r\n", message); }
void supla_log(int pri, const char *fmt, ...) {
  char b[512];
  va_list ap;
  va_start(ap, fmt);
  int n = vsnprintf(b, sizeof(b), fmt, ap);
  va_end(ap);
  if (n < 0) snprintf(b, sizeof(b), "%s", fmt);
  supla_vlog(pri, b);
}
int ets_snprintf(char *str, unsigned int size, const char *format, ...) {
  va_list ap;
  va_start(ap, format);
  int r = vsnprintf(str, size, format, ap);
  va_end(ap);
  return r;
}

int sdk_wifi_status = STATION_GOT_IP;
uint8_t sdk_flash_size_map = FLASH_SIZE_32M_MAP_1024_1024;
uint8_t sdk_userbin = UPGRADE_FW_BIN1;
struct rst_info sdk_rst_info;
uint32 system_get_chip_id(void) { return 0x00c0ffee; }
enum flash_size_map system_get_flash_size_map(void) {
  return (enum flash_size_map)sdk_flash_size_map;
}
uint32 system_get_free_heap_size(void) { return 30000; }
struct rst_info *system_get_rst_info(void) { return &sdk_rst_info; }
void system_soft_wdt_restart(void) {}
void system_soft_wdt_stop(void) {}
void (*sdk_upgflag_hook)(int flag) = NULL;
void system_upgrade_flag_set(uint8 flag) {
  sdk_out("UPGFLAG %u", flag);
  if (sdk_upgflag_hook) sdk_upgflag_hook(flag);
}
/* what only user_main.c needs (drv_boot) */
void system_restart(void) {
  sdk_out("RESTART");
  sdk_dead = 1;
  if (sdk_restart_armed) longjmp(sdk_restart_jmp, 1);
  exit(0);
}
bool system_partition_table_regist(const partition_item_t *t, uint32_t n, uint32_t map) { return 1; }
bool wifi_station_set_hostname(char *name) { return 1; }
void wifi_status_led_uninstall(void) {}
void system_print_meminfo(void) {}
void system_upgrade_reboot(void) {
  sdk_out("UPGREBOOT");
  sdk_dead = 1;
  if (sdk_restart_armed) longjmp(sdk_restart_jmp, 3);
  exit(0);
}
uint8 system_upgrade_userbin_check(void) { return sdk_userbin; }
bool wifi_get_ip_info(uint8 if_index, struct ip_info *info) {
  memset(info, 0, sizeof(*info));
  info->ip.addr = 0x0101a8c0;
  return 1;
}
bool wifi_get_macaddr(uint8 if_index, uint8 *macaddr) {
  static const uint8 mac[6] = {0x5c, 0xcf, 0x7f, 0x01, 0x02, 0x03};
  memcpy(macaddr, mac, 6);
  return 1;
}
bool wifi_set_opmode(uint8 opmode) {
  sdk_out("WIFIMODE %u", opmode);
  return 1;
}
bool wifi_softap_get_config(struct softap_config *config) {
  memset(config, 0, sizeof(*config));
  return 1;
}
bool wifi_softap_set_config(struct softap_config *config) { return 1; }
bool wifi_station_connect(void) {
  sdk_out("WIFICONNECT");
  return 1;
}
bool wifi_station_disconnect(void) {
  sdk_out("WIFIDISCONNECT");
  return 1;
}
uint8 wifi_station_get_connect_status(void) { return (uint8)sdk_wifi_status; }
sint8 wifi_station_get_rssi(void) { return -60; }
bool wifi_station_set_auto_connect(uint8 set) { return 1; }
bool wifi_station_set_config(struct station_config *config) { return 1; }
int ets_vsnprintf(char *str, size_t size, const char *format, va_list ap) {
  return vsnprintf(str, size, format, ap);
}
void supla_esp_board_on_rollershutter_position_changed(unsigned char channel, signed char pos, signed char tilt) {}
