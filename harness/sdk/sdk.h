/* Deterministic NONOS-SDK model for the native correspondence harness.
 * Types come from /repo/test/doubles (the repo's own SDK headers); every
 * implementation here is ours.  See DESIGN.md §3.2. */
#ifndef VERIF_SDK_H
#define VERIF_SDK_H

#include <stdint.h>
#include <stdio.h>
#include <setjmp.h>

#include <c_types.h>
#include <os_type.h>
#include <osapi.h>
#include <ip_addr.h>
#include <espconn.h>
#include <spi_flash.h>
#include <user_interface.h>

/* ---- time / timers ---- */
extern uint64_t sdk_now_us;   /* true time since boot of the harness         */
extern uint32_t sdk_boot_cnt; /* value of the 32-bit us counter at sdk_now=0 */
void sdk_advance_us(uint64_t us); /* run every timer due in (now, now+us]    */
int sdk_timer_armed(os_timer_t *t);
int sdk_timers_pending(void);

/* ---- observations ---- */
void sdk_out(const char *fmt, ...) __attribute__((format(printf, 1, 2)));
void sdk_out_hex(const void *p, size_t n);
extern int sdk_quiet_gpio;

/* ---- restart handling: supla_system_restart longjmps to the op loop ---- */
extern jmp_buf sdk_restart_jmp;
extern int sdk_restart_armed;
extern int sdk_dead;

/* ---- gpio ---- */
extern uint32_t sdk_gpio_out;  /* output latch, bit per pin; bit16 = gpio16 */
extern uint32_t sdk_gpio_in;   /* externally driven input levels            */
extern uint32_t sdk_gpio_dir;  /* 1 = output                                */
void sdk_input_set(int pin, int level); /* changes level, raises edge irq   */

/* ---- espconn ---- */
#define SDK_ESP_SCRIPT_MAX 4096
extern int sdk_esp_script[SDK_ESP_SCRIPT_MAX];
extern int sdk_esp_script_len, sdk_esp_script_pos;
extern int sdk_connect_script[16];
extern int sdk_connect_script_len, sdk_connect_script_pos;
extern int sdk_esp_default;           /* result when the script is exhausted */
extern struct espconn *sdk_last_conn; /* last conn passed to *_connect       */
extern struct espconn *sdk_listen_conn;
extern int sdk_sent_requires_open;
extern int sdk_disc_pending;
extern int sdk_read_cost_us;
extern void (*sdk_upgflag_hook)(int flag);
extern int sdk_conn_open;              /* a connect was requested and not yet disconnected */
extern int sdk_disconnect_calls_cb;   /* espconn_disconnect invokes discon cb */
extern void (*sdk_sent_hook)(const uint8_t *p, int len, int result);
extern int sdk_log_sent_bytes;        /* 1: SENT lines carry hex payload      */
extern dns_found_callback sdk_dns_cb;
extern void *sdk_dns_arg;
extern char sdk_dns_name[260];

/* ---- flash ---- */
#define SDK_FLASH_SECTORS 1024
extern uint8_t sdk_flash[SDK_FLASH_SECTORS * 4096];
extern int sdk_flash_fail_at;  /* k-th flash op (1-based, erase/write) fails; 0 = never */
extern int sdk_flash_fail_mode; /* 0: returns ERR w/o effect; 1: returns ERR after effect;
                                   2: returns OK without effect (silent) */
extern int sdk_flash_crash_at; /* power lost before k-th op: longjmp restart */
extern int sdk_flash_ops;
extern int sdk_flash_log;
extern int sdk_flash_partial;

/* ---- misc ---- */
extern uint32_t sdk_rng_state;
uint32_t sdk_rand(void);
extern int sdk_wifi_status;
extern uint8_t sdk_flash_size_map;
extern uint8_t sdk_userbin;
extern struct rst_info sdk_rst_info;
extern char sdk_last_log[512];
extern int sdk_log_echo;  /* 1: print LOG lines for classified messages */

/* nettle recording stub */
extern int sdk_verify_result;

#endif
