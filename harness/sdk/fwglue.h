#ifndef VERIF_FWGLUE_H
#define VERIF_FWGLUE_H
#include <stdint.h>

struct fw_board {
  int nrelays;
  struct {
    uint8_t gpio, flags, channel;
    uint32_t channel_flags;
  } relays[8];
  int ninputs;
  struct {
    uint8_t gpio, flags, type, relay_gpio, channel;
    uint32_t at_cap;
  } inputs[7];
  int nrs;
  struct {
    uint8_t up_relay, down_relay;
  } rs[8];
  int nchannels;
  struct {
    uint8_t number;
    int type, funclist, deflt, flags;
  } channels[8];
  int motor_model; /* 0: plausible (startup delay, end-stop), 1: always, 2: never */
  int motor_startup_ms, motor_up_ms, motor_down_ms;
};
extern struct fw_board fw_board;
extern int fw_factory_hook_calls;
extern int fw_hook_rs_log;
extern double fw_phys_pos[8];
extern int fw_hook_relay_log;
extern int fw_hook_mqtt_log;
extern int fw_hook_form_log;   /* print FVAR <var> <hex of the C string in the buffer> <terminated inside> */
extern int fw_hook_input_log;
extern int fw_verify_oracle;
extern unsigned long long fw_verify_len;
extern uint32_t fw_verify_hfnv, fw_verify_sfnv;
#endif
