/* /verif board header shadowing test/doubles/board_ut_testing.h (via -I order) */
#ifndef VERIF_BOARD_BASE_H
#define VERIF_BOARD_BASE_H
void verif_factory_hook(void);
#define BOARD_ESP_FACTORY_DEFAULTS verif_factory_hook();
/* observation of every recognised input state change (supla_esp_board_input_state_change in sdk/fwglue.c) */
#define BOARD_INPUT_STATE_CHANGE_NOTIF
#endif
